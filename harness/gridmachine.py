"""Binding of GridLazy.tla to the real Grid: interpreter of the machine's actions on real
objects, reference values ("what a freshly opened grid returns"), trace recording.

A *history* is a list of steps [act, h, args] exactly as TLC emits them (GridLazyGen.tla).
Handles 1 and 2 are grids opened from two sources, further handles are filled by Copy.

For every step the recorder writes one event with
  act, h, args          the call (abstract vocabulary of GridLazy.tla)
  raised, fresh_raised  outcome class of the real call / of the same call on a fresh grid
  obs                   the abstract observation: WHICH ideal result the real result coincides
                        with (the arguments of the fresh call whose result it equals), e.g. for a
                        tree [kind, sys, metric], for a frame [pe, proj, eng] + extra columns
  res_ok                the result equals the fresh result of this very call
  bad                   "h:var" for every variable stored in a live grid's dataset whose value
                        differs from the fresh value of that variable
  tmpl                  module-level constants that differ from their import-time value
  earlier               earlier returned objects whose contents changed since they were returned
  inputs                constructor inputs that changed
  grew, caches          descriptive state (newly materialised variables, cache keys)
TLC validates the event sequence against GridLazy (TraceGridLazy.tla) and names every failing
clause; Python decides nothing beyond equality with fresh values."""

from __future__ import annotations

import contextlib
import io

import numpy as np

from . import gridops as G
from . import ux as hux

KIND_LONG = {"nodes": "nodes", "faces": "face centers", "edges": "edge centers"}
KIND_SHORT = {v: k for k, v in KIND_LONG.items()}

DERIVE = {
    # the last faces and the first one: edges whose lower-numbered face is dropped while the higher one is kept
    "isel_face": lambda g: g.isel(n_face=[int(g.n_face) - 1, 0, int(g.n_face) - 2]),
    "isel_node": lambda g: g.isel(n_node=[1, 3]),
    "isel_edge": lambda g: g.isel(n_edge=[0, 2]),
    "xsec": lambda g: g.cross_section.constant_latitude(12.5),
    "dual": lambda g: g.get_dual(),
    "bbox": lambda g: g.subset.bounding_box((-100.0, 100.0), (-50.0, 80.0), element="nodes"),
}


def _data_array(g, col):
    ux = hux.import_ux()
    scale = {"a": 1.0, "b": 3.0}.get(col, 7.0)
    return ux.UxDataArray(np.arange(g.n_face, dtype=float) * scale + 1.0, dims=["n_face"], name=col, uxgrid=g)


def call(g, act, args):
    """Perform one read-only action of the machine on the real grid g; returns the value."""
    if act == "Access":
        return getattr(g, args[0])
    if act == "ComputeAreas":
        return g.compute_face_areas(args[0], args[1], args[2])
    if act in ("GetBallTree", "GetKdTree"):
        k, s, m, rec = args
        f = g.get_ball_tree if act == "GetBallTree" else g.get_kd_tree
        return f(KIND_LONG[k], coordinate_system=s, distance_metric=m, reconstruct=rec)
    if act == "ToGdf":
        pe, pr, en, cache, override = args
        return g.to_geodataframe(periodic_elements=pe, projection=G.projection(pr), engine=en, cache=cache, override=override)
    if act == "DataToGdf":
        pe, en, col, cache = args
        return _data_array(g, col).to_geodataframe(periodic_elements=pe, engine=en, cache=cache)
    if act == "ToPoly":
        pe, pr, cache, override = args
        return g.to_polycollection(periodic_elements=pe, projection=G.projection(pr), cache=cache, override=override)
    if act == "ToLine":
        pe, pr, cache, override = args
        return g.to_linecollection(periodic_elements=pe, projection=G.projection(pr), cache=cache, override=override)
    if act == "ToXarray":
        return g.to_xarray(args[0])
    if act == "Derive":
        return DERIVE[args[0]](g)
    if act == "Chunk":
        return g.chunk(n_node=2, n_edge=3, n_face=2)
    raise KeyError(act)


def copy_by(g, route):
    """A deep copy of the grid, asked for in one of the ways GridLazy.CopyRoutes lists."""
    import copy as _copy

    if route == "grid":
        return g.copy()
    if route == "deepcopy":
        return _copy.deepcopy(g)
    ux = hux.import_ux()
    da = _data_array(g, "a")
    if route == "uxda_deep":
        return da.copy(deep=True).uxgrid
    if route == "uxda_deep_data":
        return da.copy(deep=True, data=np.asarray(da.values) * 2.0).uxgrid
    ds = ux.UxDataset({"a": da}, uxgrid=g)
    if route == "uxds_deep":
        return ds.copy(deep=True).uxgrid
    if route == "uxds_deep_data":
        return ds.copy(deep=True, data={"a": np.asarray(da.values) * 2.0}).uxgrid
    raise KeyError(route)


def mutate(g, how):
    import xarray as xr

    if how == "normalize":
        # make it do something: scale the Cartesian coordinates first if they exist
        g.normalize_cartesian_coordinates()
    elif how == "face_centers":
        # (the Welzl variant shuffles with the global numpy RNG and is not reproducible)
        g.construct_face_centers(method="cartesian average")
    elif how == "inplace":
        # the caller edits, in place, the arrays behind two public properties
        lat = g.node_lat.values
        lat[...] = lat * 0.75
        conn = g.face_node_connectivity.values
        if conn.shape[0] > 1:
            conn[[0, 1]] = conn[[1, 0]]
    elif how == "setter":
        lat = g.node_lat
        g.node_lat = xr.DataArray(np.asarray(lat.values) * 0.5, dims=lat.dims, attrs=dict(lat.attrs))
    else:
        raise KeyError(how)


def outcome(fn):
    try:
        with contextlib.redirect_stdout(io.StringIO()):
            v = fn()
        return G.Outcome(False, G.fingerprint(v), None, v)
    except Exception as e:  # noqa: the outcome class is part of the observation
        return G.Outcome(True, None, "%s: %s" % (type(e).__name__, str(e)[:160]))


# ----------------------------------------------------------------------------- reference
class Fresh:
    """Fresh-grid reference values keyed by (source, mutation history, act, args)."""

    def __init__(self):
        self.ops = {}
        self.vars = {}

    def grid(self, source, muts):
        G.templates_restore()
        g = G.open_source(source)
        for how in muts:
            mutate(g, how)
        return g

    def op(self, source, muts, act, args):
        key = (source, tuple(muts), act, tuple(args))
        if key not in self.ops:
            g = self.grid(source, muts)
            o = outcome(lambda: call(g, act, args))
            o.value = None
            self.ops[key] = o
            G.templates_restore()
        return self.ops[key]

    def var(self, source, muts, name):
        key = (source, tuple(muts), name)
        if key not in self.vars:
            g = self.grid(source, muts)

            def get():
                if name in g._ds.variables and not isinstance(getattr(type(g), name, None), property):
                    return g._ds[name]
                return getattr(g, name)

            o = outcome(get)
            o.value = None
            self.vars[key] = o
            G.templates_restore()
        return self.vars[key]


FRESH = Fresh()

# argument alternatives of an action: the other calls whose fresh result a wrong result may coincide with
ALT_PE = ("exclude", "split", "ignore")
ALT_PROJ = ("none", "robinson", "robinson180")
ALT_ENG = ("spatialpandas", "geopandas")


def _alternatives(act, args):
    if act in ("GetBallTree", "GetKdTree"):
        mets = ("haversine", "minkowski", "chebyshev") if act == "GetBallTree" else ("minkowski", "chebyshev")
        return [[k, s, m, False] for k in KIND_LONG for s in ("spherical", "cartesian") for m in mets if not (s == "spherical" and act == "GetBallTree" and m != "haversine") and not (s == "cartesian" and m == "haversine")]
    if act == "ToGdf":
        return [[pe, pr, en, False, True] for pe in ALT_PE for pr in ALT_PROJ for en in ALT_ENG if not (pe == "split" and pr != "none")]
    if act in ("ToPoly", "ToLine"):
        return [[pe, pr, False, True] for pe in ALT_PE for pr in ALT_PROJ if not (pe == "split" and pr != "none")]
    if act == "ComputeAreas":
        return [list(a) for a in (("triangular", 4, True), ("triangular", 1, True), ("gaussian", 4, True), ("gaussian", 8, True), ("triangular", 8, False), ("gaussian", 2, False))]
    return []


def _abstract_key(act, args):
    if act in ("GetBallTree", "GetKdTree"):
        return list(args[:3])
    if act == "ToGdf":
        return list(args[:3])
    if act in ("ToPoly", "ToLine"):
        return list(args[:2])
    if act == "ComputeAreas":
        return list(args)
    return []


def _gdf_split(fp):
    """(geometry-only fingerprint, extra column names) of a GeoDataFrame fingerprint."""
    cols = fp.items[0]
    extra = sorted(c for c in cols if c != "geometry")
    n = fp.items[1]
    geo = G.FP("gdf", [("geometry",), n] + list(fp.items[2 : 2 + n]))
    return geo, extra


# ----------------------------------------------------------------------------- replay
class Session:
    """Real objects of one history."""

    def __init__(self, sources, mode="fresh"):
        self.mode = mode  # "fresh": judge against freshly opened grids; "twin": record only (see replay_twin)
        self.last_fp = None
        self.sources = dict(sources)  # handle -> source name
        self.grids = {}
        self.muts = {}  # handle -> list of mutators applied through this handle (the ideal's view)
        self.digests = {}
        self.returned = []  # (label, object, fingerprint at return time)
        self.exports = {}  # (h, fmt) -> dataset
        self.prev_store = {}
        G.templates_init()
        G.templates_restore()
        for h, s in sorted(self.sources.items()):
            self.grids[h] = G.open_source(s)
            self.muts[h] = []
            self.digests[h] = {}
            self.prev_store[h] = set(str(v) for v in self.grids[h]._ds.variables)

    def step(self, act, h, args):
        ev = {"act": act, "h": h, "args": list(args)}
        g = self.grids.get(h)
        src = self.sources.get(h)
        if act == "Copy":
            c = args[0]
            o = outcome(lambda: copy_by(g, args[1] if len(args) > 1 else "grid"))
            ev["raised"] = o.raised
            ev["fresh_raised"] = False
            if not o.raised:
                self.grids[c] = o.value
                self.sources[c] = src
                self.muts[c] = list(self.muts[h])
                self.digests[c] = {}
                self.prev_store[c] = set(str(v) for v in o.value._ds.variables)
            ev["res_ok"] = not o.raised
            ev["obs"] = []
        elif act == "Mutate":
            o = outcome(lambda: mutate(g, args[0]))
            fr = o if self.mode == "twin" else outcome(lambda: mutate(FRESH.grid(src, self.muts[h]), args[0]))
            self.muts[h] = self.muts[h] + [args[0]]
            self.digests[h] = {}
            ev["raised"], ev["fresh_raised"], ev["res_ok"], ev["obs"] = o.raised, fr.raised, o.raised == fr.raised, []
        elif act == "EditExport":
            ds = self.exports.get((h, args[0]))
            if ds is not None:
                _edit_dataset(ds)
            ev["raised"], ev["fresh_raised"], ev["res_ok"], ev["obs"] = False, False, True, []
        elif act == "EditReturned":
            _edit_returned(g, args[0], self.returned, h)
            ev["raised"], ev["fresh_raised"], ev["res_ok"], ev["obs"] = False, False, True, []
        elif act == "EditInput":
            # the caller overwrites, in place, what it handed to the constructor of this grid
            G.edit_inputs(g)
            g.__dict__["_verif_input_edited"] = True
            self.digests[h] = {}
            ev["raised"], ev["fresh_raised"], ev["res_ok"], ev["obs"] = False, False, True, []
        elif self.mode == "twin":
            o = outcome(lambda: call(g, act, args))
            self.last_fp = o
            ev["raised"], ev["fresh_raised"], ev["res_ok"], ev["obs"] = o.raised, o.raised, True, ["-"]
            if not o.raised:
                if act == "ToXarray":
                    self.exports[(h, args[0])] = o.value
                if act in ("ToGdf", "ToPoly", "ToLine", "DataToGdf"):
                    self.returned.append(("%s%s@%d" % (act, list(args), h), o.value, o.fp, act, h))
                    self.returned = self.returned[-12:]
        else:
            o = outcome(lambda: call(g, act, args))
            fr = FRESH.op(src, self.muts[h], act, args)
            ev["raised"], ev["fresh_raised"] = o.raised, fr.raised
            if o.raised:
                ev["err"] = o.err
            if fr.raised:
                ev["fresh_err"] = fr.err
            if o.raised or fr.raised:
                ok, where = o.raised == fr.raised, "outcome class"
            elif act == "ToXarray" and args[0] == "ugrid":
                ok, where = self._export_ok(o, fr, src, h)
            else:
                ok, where = G.fp_equal(o.fp, fr.fp)
            ev["res_ok"] = bool(ok)
            if not ok:
                ev["where"] = where
            ev["obs"] = self._observe(act, args, o, fr, src, h)
            if not o.raised:
                if act == "ToXarray":
                    self.exports[(h, args[0])] = o.value
                # exported datasets are not tracked: C15 promises stability of returned geometry,
                # C19 the caller->grid direction only
                if act in ("ToGdf", "ToPoly", "ToLine", "DataToGdf", "Access", "ComputeAreas"):
                    self.returned.append(("%s%s@%d" % (act, list(args), h), o.value, o.fp, act, h))
                    self.returned = self.returned[-12:]
        # ---- state after the step
        bad = []
        grew = []
        caches = {}
        for hh, gg in sorted(self.grids.items()):
            if self.mode == "twin":
                st, detail = G.project(gg, None, False, None)
            else:
                st, detail = G_project(gg, self.sources[hh], self.muts[hh], self.digests[hh])
            bad += ["%d:%s" % (hh, v) for v in st["bad"]]
            if hh == h:
                grew = sorted(set(st["store"]) - self.prev_store[hh])
                caches = {k: st[k] for k in ("ball", "kd", "gdf", "poly", "line", "jac", "am")}
            self.prev_store[hh] = set(st["store"])
            if detail:
                ev.setdefault("bad_detail", {}).update({"%d:%s" % (hh, k): v for k, v in detail.items()})
        ev["bad"] = sorted(set(bad))
        ev["grew"] = grew
        ev["caches"] = caches
        # "Building a grid does not modify [its inputs]": once the CALLER has edited the grid's arrays in place
        # (which may be views of the arrays the grid was built from), later differences are the caller's own doing
        if act == "Mutate" and args and args[0] == "inplace":
            self.grids[h].__dict__["_verif_inplace"] = True
        ev["inputs"] = sorted(
            "%d:%s" % (hh, n)
            for hh, gg in self.grids.items()
            if not gg.__dict__.get("_verif_inplace") and not gg.__dict__.get("_verif_input_edited")
            for n in G.inputs_changed(gg)
        )
        ev["tmpl"] = G.templates_changed()
        if ev["tmpl"]:
            G.templates_restore()
        ev["earlier"] = self._earlier_changed(skip_last=act in ("EditExport", "EditReturned", "EditInput"), act=act, h=h, args=args)
        return ev

    def _observe(self, act, args, o, fr, src, h):
        """Abstract observation: the arguments of the fresh call whose result the real result equals."""
        if o.raised or fr.raised or act not in ("GetBallTree", "GetKdTree", "ToGdf", "ToPoly", "ToLine", "ComputeAreas", "DataToGdf", "Access"):
            return []
        if act == "Access":
            if args[0] != "face_jacobian":
                return []
            # which compute_face_areas call does the jacobian coincide with
            for alt in _alternatives("ComputeAreas", None):
                fa = FRESH.op(src, self.muts[h], "ComputeAreas", alt)
                if not fa.raised and G.fp_equal(o.fp, fa.fp.items[1])[0]:
                    return alt
            return ["unknown"]
        if act == "DataToGdf":
            geo, extra = _gdf_split(o.fp)
            want_geo = FRESH.op(src, self.muts[h], "ToGdf", [args[0], "none", args[1], False, True])
            if not want_geo.raised and G.fp_equal(geo, _gdf_split(want_geo.fp)[0])[0]:
                return [args[0], "none", args[1], extra]
            return ["unknown", extra]
        if act == "ToGdf":
            geo, extra = _gdf_split(o.fp)
            fgeo = _gdf_split(fr.fp)[0]
            if G.fp_equal(geo, fgeo)[0]:
                return _abstract_key(act, args) + [extra]
            for alt in _alternatives(act, args):
                fa = FRESH.op(src, self.muts[h], act, alt)
                if not fa.raised and G.fp_equal(geo, _gdf_split(fa.fp)[0])[0]:
                    return _abstract_key(act, alt) + [extra]
            return ["unknown", extra]
        if G.fp_equal(o.fp, fr.fp)[0]:
            return _abstract_key(act, args)
        for alt in _alternatives(act, args):
            fa = FRESH.op(src, self.muts[h], act, alt)
            if not fa.raised and G.fp_equal(o.fp, fa.fp)[0]:
                return _abstract_key(act, alt)
        return ["unknown"]

    def _export_ok(self, o, fr, src, h):
        """C08: an exported dataset differs from a fresh grid's export only by also containing
        derived variables computed so far, each holding the fresh value; C07: its topology
        metadata names only what it contains."""
        ds = o.value
        names = [str(n) for n in ds.variables]
        fnames = list(fr.fp.items[0])
        ffp = dict(zip(fnames, fr.fp.items[1:]))
        missing = [n for n in fnames if n not in names]
        if missing:
            return False, "export lacks %s" % missing
        for n in names:
            if n == "grid_topology":
                continue
            cur = G._fp_dataarray(ds[n])
            if n in ffp:
                ok, where = G.fp_equal(cur, ffp[n])
            else:
                ref = FRESH.var(src, self.muts[h], n)
                if ref.raised:
                    return False, "export holds %s, which a fresh grid cannot derive" % n
                ok, where = G.fp_equal(cur, ref.fp)
            if not ok:
                return False, "export variable %s: %s" % (n, where)
        if "grid_topology" not in names:
            return False, "export has no grid_topology"
        at = ds["grid_topology"].attrs
        fat = dict(ffp["grid_topology"].items[2]) if "grid_topology" in ffp else {}
        for k, v in at.items():
            if fat.get(k) == repr(v):
                # the fresh export says the same: whether THAT is self-consistent is C07's question
                continue
            if k.endswith("_dimension") and k != "topology_dimension":
                if str(v) not in ds.dims:
                    return False, "grid_topology names dimension %s=%s which the export lacks" % (k, v)
            elif k.endswith("_coordinates") or k.endswith("_connectivity"):
                for tok in str(v).split():
                    if tok not in names:
                        return False, "grid_topology names %s=%s which the export lacks" % (k, tok)
        return True, ""

    def _earlier_changed(self, skip_last, act, h, args):
        out = []
        keep = []
        for item in self.returned:
            label, obj, fp0, ract, rh = item
            # the caller's own edits are not the library altering a returned object
            if getattr(obj, "_verif_edited", False) or id(obj) in _EDITED:
                continue
            try:
                now = G.fingerprint(obj)
                ok, where = G.fp_equal(now, fp0)
            except Exception as e:  # noqa
                ok, where = False, "unreadable: %s" % e
            if not ok:
                # chunk() and mutators change the grid's own variables in place by design of the call:
                # a DataArray handed out earlier is a view of the grid's state only if it IS the stored object
                out.append(label)
            else:
                keep.append(item)
        self.returned = keep
        return out


_EDITED = set()


def _edit_dataset(ds):
    _EDITED.add(id(ds))
    for name in list(ds.variables):
        v = ds[name]
        if v.dtype.kind == "f" and v.size:
            try:
                v.values[...] = v.values + 1.0
            except Exception:  # noqa  (read-only / dask)
                pass
    ds.attrs["edited_by_caller"] = 1
    try:
        ds["caller_var"] = ("caller_dim", np.arange(3))
    except Exception:  # noqa
        pass


def _edit_returned(g, what, returned, h):
    want = {"gdf": ("ToGdf", "DataToGdf"), "poly": ("ToPoly",), "line": ("ToLine",)}[what]
    for label, obj, fp0, ract, rh in reversed(returned):
        if ract in want and rh == h:
            _EDITED.add(id(obj))
            try:
                if what == "gdf":
                    obj["caller_col"] = 1
                elif what == "poly":
                    obj.set_paths([])
                else:
                    obj.set_segments([])
            except Exception:  # noqa
                pass
            return


def G_project(grid, source, muts, digests):
    """project() against the reference with this handle's own mutation history."""
    if not muts:
        return G.project(grid, source, True, digests)

    class _Ref:
        @staticmethod
        def var(src, name):
            return FRESH.var(src, muts, name)

    old = G.REF
    G.REF = _Ref
    try:
        return G.project(grid, source, True, digests)
    finally:
        G.REF = old


def replay(history, sources):
    """history: list of [act, h, args]; sources: {1: name, 2: name}.  Returns the event list."""
    s = Session(sources)
    events = []
    replay.last_init = {str(h): sorted(st) for h, st in s.prev_store.items()}
    for act, h, args in history:
        if h not in s.grids:
            events.append({"act": act, "h": h, "args": list(args), "skipped": True})
            break
        events.append(s.step(act, h, list(args)))
    return events


# ----------------------------------------------------------------------------- non-interference (C19)
def lineage(history, handle):
    """The steps of `history` that make up `handle`'s own past: its own steps since it came into
    being, its parent's steps before the copy (recursively), and no caller edits at all."""
    keep = []
    cur = handle
    for i in range(len(history) - 1, -1, -1):
        act, h, args = history[i]
        if act in ("EditExport", "EditReturned", "EditInput"):
            continue
        if act == "Copy" and args[0] == cur:
            keep.append(i)
            cur = h
        elif h == cur and act != "Copy":
            keep.append(i)
    return [history[i] for i in sorted(keep)]


def _var_digests(grid):
    out = {}
    for name in grid._ds.variables:
        try:
            out[str(name)] = G._digest(G._fp_dataarray(grid._ds[name]))
        except Exception as e:  # noqa
            out[str(name)] = "unreadable:%s" % type(e).__name__
    return out


def replay_twin(history, sources):
    """Replay `history`; judge non-interference: what every handle reports at the end (its last
    result, every variable its dataset holds) equals what it reports after its own lineage
    alone.  Constructor inputs, templates and earlier returned objects are checked at every step."""
    s = Session(sources, mode="twin")
    events = []
    replay.last_init = {str(h): sorted(st) for h, st in s.prev_store.items()}
    for act, h, args in history:
        if h not in s.grids:
            events.append({"act": act, "h": h, "args": list(args), "skipped": True})
            return events
        events.append(s.step(act, h, list(args)))
    last = events[-1]
    final_h = history[-1][1]
    final_act = history[-1][0]
    bad = []
    detail = {}
    for hh, gg in sorted(s.grids.items()):
        lin = lineage(history, hh)
        if len(lin) == len(history):
            continue  # nothing was removed: the run is its own twin
        t = Session(sources, mode="twin")
        for act, h, args in lin:
            t.step(act, h, list(args))
        if hh not in t.grids:
            continue
        a, b = _var_digests(gg), _var_digests(t.grids[hh])
        for name in sorted(set(a) & set(b)):
            if a[name] != b[name] and name not in G.UNJUDGED_VARS:
                # digests are exact; confirm with the tolerant comparison
                ok, where = G.fp_equal(G._fp_dataarray(gg._ds[name]), G._fp_dataarray(t.grids[hh]._ds[name]))
                if not ok:
                    bad.append("%d:%s" % (hh, name))
                    detail["%d:%s" % (hh, name)] = where
        if hh == final_h and final_act not in ("EditExport", "EditReturned", "EditInput", "Mutate", "Copy") and lin and lin[-1] == history[-1]:
            o, w = s.last_fp, t.last_fp
            last["fresh_raised"] = w.raised
            if o.raised or w.raised:
                ok, where = o.raised == w.raised, "outcome class"
            else:
                ok, where = G.fp_equal(o.fp, w.fp)
            last["res_ok"] = bool(ok)
            if not ok:
                last["where"] = where
    last["bad"] = sorted(bad)
    if detail:
        last["bad_detail"] = detail
    return events

"""Shared driver of the GridLazy-based checks (C08, C19): model checking of the machine,
history generation by TLC, replay into real grids, trace validation by TLC, shrinking."""

from __future__ import annotations

import json
import os

from . import tlaval
from .core import Machinery
from .pool import pmap

INVARIANTS = ["TypeOK", "Refines", "TemplatesConstant", "CachesTruthful", "CacheKeysComplete", "NoSharedDatasets", "ExportsDetached", "HandleSeesOwnVersion"]


def cfg(mech, focus, handles=(1, 2), base=(1,), max_mut=2, invs=INVARIANTS, init="Init", next_="Next", extra="", constraint=None):
    s = "INIT %s\nNEXT %s\nCONSTANTS\n Handles = {%s}\n Base = {%s}\n Mech <- %s\n MaxMut = %d\n Focus = {%s}\n" % (
        init,
        next_,
        ",".join(map(str, handles)),
        ",".join(map(str, base)),
        mech,
        max_mut,
        ",".join('"%s"' % f for f in focus),
    )
    s += extra
    s += "".join("INVARIANT %s\n" % i for i in invs)
    if constraint:
        s += "CONSTRAINT %s\n" % constraint
    s += "CHECK_DEADLOCK FALSE\n"
    return s


def gen_cfg(mech, focus, max_len, other_fams, handles=(1, 2), base=(1, 2), invs=("Emit",), max_mut=1):
    extra = " MaxLen = %d\n OtherFams = {%s}\n" % (max_len, ",".join('"%s"' % f for f in other_fams))
    return cfg(mech, focus, handles, base, max_mut, list(invs), "GenInit", "GenNext", extra)


def histories_from_prints(prints):
    out = []
    for v in prints:
        if isinstance(v, tuple) and len(v) == 2 and v[0] == "H":
            out.append([[st[0], st[1], _plain(st[2])] for st in v[1]])
    return out


def _plain(x):
    if isinstance(x, tuple):
        return [_plain(y) for y in x]
    if isinstance(x, frozenset):
        return sorted(_plain(y) for y in x)
    return x


def generate(ctx, focus, max_len, other_fams, what, handles=(1, 2), base=(1, 2), mech="MechIntended", workers=8, simulate=None, depth=None, seed=None, max_mut=1):
    """All histories of length max_len (or simulated ones) as lists of [act, h, args]."""
    invs = ("Emit",)
    extra_mod = None
    c = gen_cfg(mech, focus, max_len, other_fams, handles, base, invs, max_mut)
    r = ctx.tlc_ok("GridLazyGen", c, what=what, workers=workers, simulate=simulate, depth=depth, seed=seed, timeout=3000)
    hs = histories_from_prints(r.prints)
    n_raw = r.out.count('"H"')
    if len(hs) != n_raw:
        raise Machinery("generator printed %d histories, parsed %d" % (n_raw, len(hs)))
    return hs


# ----------------------------------------------------------------------------- replay
def _replay_one(job):
    from . import gridmachine as M

    tid, hist, sources = job[:3]
    try:
        fn = M.replay_twin if (len(job) > 3 and job[3] == "twin") else M.replay
        events = fn(hist, {int(k): v for k, v in sources.items()})
        return {"tid": tid, "sources": sources, "hist": hist, "events": events, "init": M.replay.last_init}
    except Exception as e:  # noqa: harness failure, reported as such
        import traceback

        return {"tid": tid, "sources": sources, "hist": hist, "harness_error": "%s: %s\n%s" % (type(e).__name__, e, traceback.format_exc()[-1500:])}


def replay_all(jobs):
    return pmap(_replay_one, jobs)


EVENT_FIELDS = ("act", "h", "args", "raised", "fresh_raised", "res_ok", "obs", "bad", "tmpl", "earlier", "grew", "inputs")


def validate(ctx, traces, what, workers=8, handles=(1, 2, 3), base=(1, 2), batch=30000):
    """TLC validates the traces against GridLazy (TraceGridLazy.tla).
    Returns {tid: [(line, clause)]} and {tid: [(line, names)]} (drift)."""
    bad = [t for t in traces if "harness_error" in t]
    if bad:
        raise Machinery("replay failed in the harness for %d histories, e.g. %s: %s" % (len(bad), bad[0]["hist"], bad[0]["harness_error"]))
    viol, drift, ended = {}, {}, {}
    # TLC deserialises the whole trace file in memory: validate in batches
    for b0 in range(0, len(traces), batch):
        part = traces[b0 : b0 + batch]
        path = os.path.join(ctx.work, "traces_%d_%d.ndjson" % (len(ctx.tlc_runs), b0))
        with open(path, "w") as fh:
            for t in part:
                evs = [{k: e.get(k, []) for k in EVENT_FIELDS} for e in t["events"] if not e.get("skipped")]
                fh.write(json.dumps({"tid": t["tid"], "init": t["init"], "events": evs}) + "\n")
        c = cfg("MechIntended", ["all"], handles, base, 3, ["TraceTypeOK"], "TraceInit", "TraceNext")
        r = ctx.tlc_ok("TraceGridLazy", c, what=what + (" [%d..%d]" % (b0, b0 + len(part)) if len(traces) > batch else ""), workers=workers, env={"TRACE_FILE": path}, count=False, timeout=3000)
        n_parsed = 0
        for v in r.prints:
            if not isinstance(v, tuple):
                continue
            if v[0] == "V" and len(v) == 4:
                viol.setdefault(v[1], []).append((v[2], v[3]))
                n_parsed += 1
            elif v[0] == "D" and len(v) == 4:
                drift.setdefault(v[1], []).append((v[2], sorted(v[3])))
            elif v[0] == "E" and len(v) == 3:
                ended[v[1]] = v[2]
        n_v = r.out.count('"V"')
        if n_parsed != n_v:
            raise Machinery("trace validator printed %d verdict lines, parsed %d" % (n_v, n_parsed))
        os.remove(path)
    for t in traces:
        n = len([e for e in t["events"] if not e.get("skipped")])
        if n and ended.get(t["tid"]) != n:
            raise Machinery(
                "trace %s was not consumed to its end by the specification (stopped at %s of %d): %s"
                % (t["tid"], ended.get(t["tid"]), n, json.dumps(t["hist"])[:400])
            )
    ctx.traces += len(traces)
    return viol, drift


# ----------------------------------------------------------------------------- shrinking
def shrink(hist, sources, line, clause, validate_fn):
    """Smallest sub-history (dropping steps before `line`) whose last step still fails `clause`."""
    cur = hist[:line]
    changed = True
    while changed and len(cur) > 1:
        changed = False
        for i in range(len(cur) - 1):
            cand = cur[:i] + cur[i + 1 :]
            if validate_fn(cand, sources, clause):
                cur = cand
                changed = True
                break
    return cur


def compact(hist):
    return " ; ".join("%s@%d(%s)" % (a, h, ",".join(map(str, args))) for a, h, args in hist)


def report(ctx, traces, viol, drift):
    by_tid = {t["tid"]: t for t in traces}
    for t in traces:
        ctx.count(1, (compact(t["hist"]), tuple(sorted(t["sources"].items()))))
    seen = set()
    for tid, items in sorted(viol.items()):
        t = by_tid[tid]
        for line, clause in sorted(items):
            ev = t["events"][line - 1]
            prev = [e["act"] for e in t["events"][: line - 1]]
            key = "%s|%s|%s" % (clause, compact(t["hist"][:line]), "/".join(t["sources"][k] for k in sorted(t["sources"])))
            if key in seen:
                continue
            seen.add(key)
            # did the caller overwrite, in place, the constructor inputs of a grid of this history before this
            # step, and through which kind of constructor were they handed over (decided from the source's name:
            # t_* arrays / lists to from_topology, v_* face-vertex arrays, d_* the caller's xarray dataset)
            edited = sorted({e["h"] for e in t["events"][:line] if e["act"] == "EditInput"})
            routes = sorted({{"t": "topology", "v": "vertices", "d": "dataset"}.get(str(src)[:1] if str(src)[1:2] == "_" else "", "other") for src in t["sources"].values()})
            sig = {
                "clause": clause,
                "act": ev["act"],
                "after": prev[-1] if prev else "",
                "same_grid": bool(prev) and t["events"][line - 2]["h"] == ev["h"],
                "input_edited": bool(edited),
                "input_route": routes[0] if len(routes) == 1 else "mixed",
            }
            ctx.violation(
                key,
                clause,
                detail={k: ev.get(k) for k in ("args", "where", "err", "fresh_err", "obs", "bad", "bad_detail", "tmpl", "earlier") if ev.get(k)},
                sig=sig,
                replay={"history": t["hist"][:line], "sources": t["sources"]},
            )
    n_drift = sum(len(v) for v in drift.values())
    if n_drift:
        ex = sorted(drift.items())[0]
        print("MODEL-DRIFT: %d steps materialised variables the dependency table does not predict, e.g. %s %s" % (n_drift, compact(by_tid[ex[0]]["hist"]), ex[1][:1]))
    ctx.note("model_drift_steps", n_drift)
    for t in traces[:2]:
        ctx.sample({"history": compact(t["hist"]), "sources": t["sources"], "events": [{k: e.get(k) for k in ("act", "h", "args", "res_ok", "obs", "bad")} for e in t["events"]]})




def replay_file(path):
    from . import gridmachine as M

    data = json.load(open(path))
    rc = 0
    for case in data["cases"][:20]:
        rp = case["replay"]
        evs = M.replay(rp["history"], {int(k): v for k, v in rp["sources"].items()})
        last = evs[-1]
        print(compact(rp["history"]), "->", {k: last.get(k) for k in ("res_ok", "raised", "fresh_raised", "obs", "bad", "tmpl", "earlier", "inputs", "where")})
        if not last.get("res_ok") or last.get("bad") or last.get("tmpl") or last.get("earlier") or last.get("inputs") or last.get("raised") != last.get("fresh_raised"):
            rc = 1
    return rc


# ----------------------------------------------------------------------------- recorder run
def recorder_run(ctx):
    """Run the repository's own test suite under the recorder plugin (harness/verif_recorder.py)
    and have TLC judge what the tests did to their grids.  Returns the records."""
    import subprocess
    import sys

    from . import ux as hux

    rec_file = os.path.join(ctx.work, "recorder.ndjson")
    env = dict(os.environ, UXARRAY_VERIF="1", VERIF_RECORD_FILE=rec_file, PYTHONPATH=os.path.join(hux.VERIF, "harness") + os.pathsep + hux.VERIF, PYTHONDONTWRITEBYTECODE="1")
    # the suite writes scratch files relative to its working directory (test_grid: grid_geoflow.exo): leave the tree as found
    before = set(os.listdir(hux.REPO))
    p = subprocess.run(
        [sys.executable, "-m", "pytest", "-q", "-p", "no:cacheprovider", "-p", "verif_recorder", "--timeout=900", "--continue-on-collection-errors"],
        cwd=hux.REPO, env=env, capture_output=True, text=True, timeout=3000,
    )
    for name in set(os.listdir(hux.REPO)) - before:
        path = os.path.join(hux.REPO, name)
        if os.path.isfile(path) and name.endswith((".exo", ".nc", ".ug", ".g")):
            os.remove(path)
    if not os.path.exists(rec_file):
        raise Machinery("recorder run wrote no records:\n" + (p.stdout + p.stderr)[-1500:])
    recs = [json.loads(l) for l in open(rec_file)]
    errs = [r for r in recs if r.get("recorder_error")]
    if errs:
        raise Machinery("recorder failed inside %d tests, e.g. %s" % (len(errs), errs[0]))
    r = ctx.tlc_ok("JudgeRecorder", "INIT Init\nNEXT Next\nINVARIANT Judge\nCHECK_DEADLOCK FALSE\n", what="judge %d recorded tests of the repository's suite" % len(recs), env={"REC_FILE": rec_file}, workers=4, count=False)
    failed = {}
    for v in r.prints:
        if isinstance(v, tuple) and len(v) == 3 and v[0] == "V":
            failed.setdefault(v[1], set()).add(v[2])
    if r.out.count('"V"') != sum(len(x) for x in failed.values()):
        raise Machinery("recorder judge: printed and parsed verdicts differ")
    m = __import__("re").search(r"(\d+) passed", p.stdout)
    ctx.note("recorder", {"tests": len(recs), "grids": sum(x["grids"] for x in recs), "variables_compared": sum(x["checked"] for x in recs), "suite_passed": int(m.group(1)) if m else None})
    ctx.traces += len([x for x in recs if x["grids"]])
    for i, clauses in sorted(failed.items()):
        rec = recs[i - 1]
        for c in sorted(clauses):
            ctx.violation("recorder|%s|%s" % (c, rec["test"]), c, detail={"bad": rec["bad"], "tmpl": rec["tmpl"]}, sig={"clause": c, "act": "recorder", "test": rec["test"]}, replay={"test": rec["test"]})
    return recs


# ----------------------------------------------------------------------------- binding demonstration
def binding_selftest(ctx, traces, handles=(1, 2, 3), base=(1, 2)):
    """Corrupt one recorded field at a time in an accepted trace and require TraceGridLazy to
    reject it with the corresponding clause (a specification nothing binds to the code would
    accept anything).  Machinery failure if a corruption goes unnoticed."""
    import copy

    good = None
    for t in traces:
        evs = [e for e in t["events"] if not e.get("skipped")]
        if len(evs) >= 2 and any(e["act"] in ("GetBallTree", "GetKdTree", "ToGdf", "ToPoly", "ToLine") and e.get("obs") not in ([], ["-"]) for e in evs):
            good = t
            break
    if good is None:
        return 0
    k = next(i for i, e in enumerate(good["events"]) if e["act"] in ("GetBallTree", "GetKdTree", "ToGdf", "ToPoly", "ToLine") and e.get("obs") not in ([], ["-"]))
    muts = []

    def variant(tag, clause, f):
        t = copy.deepcopy(good)
        t["tid"] = 900000 + len(muts)
        f(t["events"])
        muts.append((t, tag, clause))

    def swap_obs(evs):
        o = list(evs[k]["obs"])
        o[0] = {"nodes": "faces", "faces": "edges", "edges": "nodes", "exclude": "ignore", "ignore": "split", "split": "exclude"}.get(o[0], "nodes")
        evs[k]["obs"] = o

    variant("result coincides with another call's ideal result", "Refines", swap_obs)
    variant("result differs from fresh", "ResultFresh", lambda evs: evs[k].__setitem__("res_ok", False))
    variant("a stored variable differs from fresh", "StoredFresh", lambda evs: evs[-1].__setitem__("bad", ["1:node_lon"]))
    variant("a module constant changed", "Templates", lambda evs: evs[0].__setitem__("tmpl", ["ugrid.BASE_GRID_TOPOLOGY_ATTRS"]))
    variant("raises where fresh returns", "Outcome", lambda evs: evs[k].__setitem__("raised", True))
    variant("constructor input changed", "InputsKept", lambda evs: evs[-1].__setitem__("inputs", ["1:face_node_connectivity"]))
    variant("earlier returned object changed", "EarlierKept", lambda evs: evs[-1].__setitem__("earlier", ["ToLine@1"]))
    viol, _ = validate(ctx, [copy.deepcopy(good)] + [m[0] for m in muts], "binding demonstration: %d corrupted copies of an accepted trace" % len(muts), workers=1, handles=handles, base=base)
    ctx.traces -= len(muts) + 1
    if good["tid"] in viol and not any(c for _, c in viol[good["tid"]] if False):
        pass
    for t, tag, clause in muts:
        got = {c for _, c in viol.get(t["tid"], [])}
        if clause not in got:
            raise Machinery("binding demonstration failed: corrupted trace (%s) was not rejected by clause %s (got %s)" % (tag, clause, sorted(got)))
    ctx.note("binding_demonstration", {"corruptions_rejected": len(muts), "clauses": sorted({m[2] for m in muts})})
    return len(muts)


# ----------------------------------------------------------------------------- JIT off
def _json_close(a, b, path="", tol=1e-12):
    """Tolerant comparison of two jsonable fingerprints (gridjitoff.jsonable)."""
    if isinstance(a, dict) and isinstance(b, dict):
        if set(a) != set(b):
            return False, path + ":keys"
        if "f" in a:
            if a["s"] != b["s"]:
                return False, path + ":shape"
            for x, y in zip(a["f"], b["f"]):
                if (x is None) != (y is None):
                    return False, path + ":nan pattern"
                if x is not None and abs(x - y) > tol + tol * abs(y):
                    return False, path + ":values differ by %.3g" % abs(x - y)
            return True, ""
        for k in a:
            ok, w = _json_close(a[k], b[k], path + "/" + str(k), tol)
            if not ok:
                return ok, w
        return True, ""
    if isinstance(a, list) and isinstance(b, list):
        if len(a) != len(b):
            return False, path + ":length"
        for i, (x, y) in enumerate(zip(a, b)):
            ok, w = _json_close(x, y, path + "[%d]" % i, tol)
            if not ok:
                return ok, w
        return True, ""
    return (a == b), ("" if a == b else path + ":%r != %r" % (a, b))


FLOAT32_SOURCES = {"quadhex"}


def jit_off_run(ctx, jobs, panel_sources, panel_ops):
    """Replays `jobs` in a child process with numba's JIT off; returns its traces.  The panel of
    fresh values computed there is compared with the JIT-on values of this process."""
    import subprocess
    import sys

    from . import gridjitoff as J
    from . import gridops as G
    from . import ux as hux

    src = os.path.join(ctx.work, "jitoff_jobs.json")
    dst = os.path.join(ctx.work, "jitoff_out.json")
    json.dump({"jobs": [list(j) for j in jobs], "panel_sources": panel_sources, "panel_ops": panel_ops}, open(src, "w"))
    env = dict(os.environ, NUMBA_DISABLE_JIT="1", PYTHONPATH=hux.VERIF)
    p = subprocess.run([sys.executable, "-W", "ignore", "-m", "harness.gridjitoff", src, dst], cwd=hux.VERIF, env=env, capture_output=True, text=True, timeout=3000)
    if p.returncode or not os.path.exists(dst):
        raise Machinery("JIT-off child failed (rc=%s):\n%s" % (p.returncode, (p.stdout + p.stderr)[-2000:]))
    out = json.load(open(dst))
    G.templates_init()
    n = 0
    for s in panel_sources:
        for op in panel_ops:
            G.templates_restore()
            o = G.run_op(G.open_source(s), op)
            mine = {"raised": o.raised, "fp": None if o.raised else J.jsonable(o.fp)}
            theirs = out["panel"][s][op]
            n += 1
            if mine["raised"] != theirs["raised"]:
                ctx.violation("jit|%s|%s" % (s, op), "JitIndependent", detail="outcome class differs: JIT on raised=%s, JIT off raised=%s" % (mine["raised"], theirs["raised"]), sig={"clause": "JitIndependent", "act": op.split(":")[0]}, replay={"source": s, "op": op})
            elif not mine["raised"]:
                # a source stored in single precision is compared at single precision: compiled and
                # interpreted code promote float32 operands differently, far below the inputs' own precision
                ok, where = _json_close(mine["fp"], theirs["fp"], tol=1e-6 if s in FLOAT32_SOURCES else 1e-12)
                if not ok:
                    ctx.violation("jit|%s|%s" % (s, op), "JitIndependent", detail=where, sig={"clause": "JitIndependent", "act": op.split(":")[0]}, replay={"source": s, "op": op})
    ctx.note("jit_off", {"histories": len(out["traces"]), "panel_observations": n})
    return out["traces"]


# ----------------------------------------------------------------------------- directed histories
def counterexample_history(ctx, mech, focus, inv, handles=(1, 2), base=(1,), max_len=4, max_mut=2):
    """TLC's shortest history on which the mechanism `mech` violates `inv` (None if it holds):
    a directed test for the real code instead of hoping a sampled history hits it."""
    import re

    c = gen_cfg(mech, focus, max_len, ["Access", "ToXarray", "ToGdf", "ToPoly", "ToLine", "Mutate", "EditExport", "EditReturned", "EditInput", "Copy", "Chunk", "DataToGdf"], handles, base, (inv,), max_mut)
    r = ctx.tlc("GridLazyGen", c, what="GridLazy(%s): shortest history violating %s" % (mech, inv), workers=1, count=False, timeout=900)
    if r.violated is None:
        if not r.ok:
            raise Machinery("TLC failed on %s/%s: %s" % (mech, inv, r.out[-800:]))
        return None
    if r.violated != inv:
        raise Machinery("expected %s to be violated, got %s" % (inv, r.violated))
    hs = re.findall(r"/\\ hist = (<<.*?>>)\n(?:/\\|\n|$)", r.trace_text, flags=re.S)
    if not hs:
        raise Machinery("no history in TLC's counterexample:\n" + r.trace_text[-1500:])
    v = tlaval.parse(hs[-1])
    return [[st[0], st[1], _plain(st[2])] for st in v]

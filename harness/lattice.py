"""Integer direction vectors -> floats, and evaluation of the exact descriptors emitted by
SphereZ.tla.  Only math.sqrt / atan2 / asin / fsum are used; no uxarray helper."""

from __future__ import annotations

import math


def unit(v):
    n = math.sqrt(v[0] * v[0] + v[1] * v[1] + v[2] * v[2])
    return (v[0] / n, v[1] / n, v[2] / n)


def lonlat_deg(v):
    """Longitude in (-180, 180] and latitude in [-90, 90] of an integer direction.
    A pole gets longitude 0."""
    x, y, z = v
    h2 = x * x + y * y
    if h2 == 0:
        return 0.0, (90.0 if z > 0 else -90.0)
    lon = math.degrees(math.atan2(y, x))
    lat = math.degrees(math.atan2(z, math.sqrt(h2)))
    return lon, lat


def geodesic(geo):
    """GeoDescr <<|a x b|^2, a.b>> -> angle in radians."""
    num, dot = geo
    return math.atan2(math.sqrt(num), dot)


def angle(descr):
    """AngleDescr <<N2(b), det, gamma>> -> interior angle in radians."""
    n2b, det, gam = descr
    return math.atan2(math.sqrt(n2b) * det, gam)


def excess(descrs):
    """ExcessDescr (one AngleDescr per corner) -> spherical excess = area on the unit sphere."""
    n = len(descrs)
    return math.fsum([angle(d) for d in descrs] + [-(n - 2) * math.pi])


def asin_sqrt(num, den):
    return math.asin(math.sqrt(num / den))


def lat_of(v):
    return math.atan2(v[2], math.sqrt(v[0] * v[0] + v[1] * v[1]))


def centroid_dir(vs):
    """Normalised mean of the unit vectors of integer directions vs (float)."""
    sx = math.fsum(v[0] / math.sqrt(v[0] ** 2 + v[1] ** 2 + v[2] ** 2) for v in vs)
    sy = math.fsum(v[1] / math.sqrt(v[0] ** 2 + v[1] ** 2 + v[2] ** 2) for v in vs)
    sz = math.fsum(v[2] / math.sqrt(v[0] ** 2 + v[1] ** 2 + v[2] ** 2) for v in vs)
    n = math.sqrt(sx * sx + sy * sy + sz * sz)
    return (sx / n, sy / n, sz / n)


def ang_between(u, v):
    """Angle between two float 3-vectors (robust atan2 form)."""
    cx = u[1] * v[2] - u[2] * v[1]
    cy = u[2] * v[0] - u[0] * v[2]
    cz = u[0] * v[1] - u[1] * v[0]
    return math.atan2(math.sqrt(cx * cx + cy * cy + cz * cz), u[0] * v[0] + u[1] * v[1] + u[2] * v[2])


def xyz_of_lonlat_deg(lon, lat):
    lo, la = math.radians(lon), math.radians(lat)
    return (math.cos(la) * math.cos(lo), math.cos(la) * math.sin(lo), math.sin(la))

"""Stand-in for the optional third-party package `pyfma`, which uxarray's Newton solver for the
great-circle / constant-latitude intersection imports unconditionally (uxarray.utils.computing._fmms)
and which is not installed here (no network).  fma(a, b, c) is a*b + c with a single rounding; this
stand-in computes it exactly in rational arithmetic and rounds once, i.e. it IS a correctly rounded fused
multiply-add.  The directory is appended to sys.path by checks/x02.py only, after every real path, so a
real pyfma would win."""

from fractions import Fraction

import numpy as np


def _fma1(a, b, c):
    a, b, c = float(a), float(b), float(c)
    if not (np.isfinite(a) and np.isfinite(b) and np.isfinite(c)):
        return a * b + c
    return float(Fraction(a) * Fraction(b) + Fraction(c))


_vec = np.vectorize(_fma1, otypes=[float])


def fma(a, b, c):
    if np.ndim(a) == 0 and np.ndim(b) == 0 and np.ndim(c) == 0:
        return _fma1(a, b, c)
    return _vec(a, b, c)

"""Generators of *inputs* larger than TLC enumerates (code -> spec direction).

Nothing here decides a verdict: meshes produced here are handed to the implementation
and the recorded outputs are judged by TLC against Mesh.tla.
"""

from __future__ import annotations

import math
import random


def planar_mixed(nx, ny, rng: random.Random, p_split=0.3, p_merge=0.25, holes=0.0, shuffle=True):
    """A patch of nx*ny quads on a lon/lat lattice; some quads split into two triangles,
    some horizontal runs of 2..3 quads merged into 6- and 8-gons (collinear nodes are
    fine for connectivity), some faces removed (holes / partial coverage).
    Returns (lon, lat, faces) with faces counter-clockwise.
    """
    nid = lambda i, j: j * (nx + 1) + i
    lon = []
    lat = []
    for j in range(ny + 1):
        for i in range(nx + 1):
            lon.append(-20.0 + 40.0 * i / max(nx, 1))
            lat.append(-20.0 + 40.0 * j / max(ny, 1))
    faces = []
    for j in range(ny):
        i = 0
        while i < nx:
            r = rng.random()
            run = 1
            if r < p_merge and i + 1 < nx:
                run = 2 if (rng.random() < 0.6 or i + 2 >= nx) else 3
            if run > 1:
                bottom = [nid(i + k, j) for k in range(run + 1)]
                top = [nid(i + k, j + 1) for k in range(run, -1, -1)]
                faces.append(bottom + top)  # 2*(run+1) corners: 6 or 8
                i += run
                continue
            a, b, c, d = nid(i, j), nid(i + 1, j), nid(i + 1, j + 1), nid(i, j + 1)
            if rng.random() < p_split:
                if rng.random() < 0.5:
                    faces.append([a, b, c])
                    faces.append([a, c, d])
                else:
                    faces.append([a, b, d])
                    faces.append([b, c, d])
            else:
                faces.append([a, b, c, d])
            i += 1
    if holes > 0:
        faces = [f for f in faces if rng.random() >= holes] or faces[:1]
    if shuffle:
        # random start corner, random face order, random node numbering; drop unused nodes
        faces = [f[k:] + f[:k] for f in faces for k in [rng.randrange(len(f))]]
        rng.shuffle(faces)
        used = sorted({n for f in faces for n in f})
        perm = list(range(len(used)))
        rng.shuffle(perm)
        new = {old: perm[k] for k, old in enumerate(used)}
        lon2 = [0.0] * len(used)
        lat2 = [0.0] * len(used)
        for old, nw in new.items():
            lon2[nw] = lon[old]
            lat2[nw] = lat[old]
        faces = [[new[n] for n in f] for f in faces]
        lon, lat = lon2, lat2
    return lon, lat, faces


def arbitrary_coords(n_node):
    """Distinct (lon, lat) for connectivity-only checks where geometry is irrelevant."""
    lon = [(-170.0 + 37.0 * k) % 340.0 - 170.0 for k in range(n_node)]
    lat = [-80.0 + (23.0 * k) % 160.0 for k in range(n_node)]
    return lon, lat

"""C14 helpers: TLC scope runs (ArcScope.tla), replay of arcs / triples / arc pairs into
uxarray.grid.arcs and uxarray.grid.intersections, judging with JudgeArcs.tla.

Python here only: materialises float inputs from integer directions, applies the metamorphic
transformations to the inputs, evaluates descriptors supplied by TLC to floats and applies the
property's tolerances (1e-10 for points, 1e-12 for latitudes), and projects outputs to small
integers.  Every classification and every verdict is TLC's.
"""

from __future__ import annotations

import json
import math
import os
import re

from . import tlaval
from .core import Machinery

POINT_TOL = 1e-10
LAT_TOL = 1e-12
TILT_RAD = 2e-6  # twice the property's margin
TILT_VARIANT = 9

LAWS_A = ["InvLatSwap", "InvLatRotZ", "InvLatFlip", "InvTopWithin", "InvLatDominates", "InvLatOrder", "InvArcMargin"]
LAWS_T = ["InvSwapEnds", "InvRotZ", "InvRot24", "InvPartition", "InvAntipode", "InvCone", "InvTripleMargin", "InvShrinkTriple", "InvShrinkLat"]
LAW_SHRINK_PAIR = "InvShrinkPair"  # only where K = KP = 1 (the crossing direction is of degree 4 in K)
LAWS_P = ["InvSignIsDefinitional", "InvPairSwapArcs", "InvPairSwapEnds", "InvPairRotZ", "InvPairRot24", "InvPairMargin"]

CLASS_OF_DIGIT = {"1": "Interior", "2": "OnCircleOutside", "3": "Off", "4": "Endpoint", "5": "InsideMargin", "0": "NotAPoint"}


# ------------------------------------------------------------------------------- TLC side
def extract_prints(out):
    """PrintT values starting with a string tag; TLC pretty-prints long tuples over several lines
    ('<< "A",'), which harness.tlc's own extractor does not pick up."""
    res = []
    for m in re.finditer(r'^<< ?"', out, re.M):
        try:
            v, _ = tlaval.parse_prefix(out, m.start())
        except tlaval.ParseError:
            continue
        res.append(v)
    return res


def _b(x):
    return "TRUE" if x else "FALSE"


def scope(ctx, K, KP=None, stages=(), first_canon=False, pair_canon=False, emit_arcs=True, emit_classes=True,
          emit_pairs=False, rot24=True, laws=True, workers=8, what="", pair_stride=1):
    """Model-check the oracle's laws on the lattice |c| <= K and collect the emitted cases."""
    KP = K if KP is None else KP
    invs = ["TypeOK"]
    if laws is True:
        invs += LAWS_A
        if "T" in stages:
            invs += LAWS_T
        if "P" in stages:
            invs += LAWS_P
            if K == 1 and KP == 1:
                invs.append(LAW_SHRINK_PAIR)
    elif laws:
        invs += list(laws)
    if emit_arcs:
        invs.append("EmitArc")
    if emit_pairs:
        invs.append("EmitPair")
    cfg = (
        "SPECIFICATION Spec\nCONSTANTS\n K = %d\n KP = %d\n Stages = {%s}\n FirstCanon = %s\n PairCanon = %s\n PairStride = %d\n"
        " EmitArcs = %s\n EmitClasses = %s\n EmitPairs = %s\n WithRot24 = %s\n"
        % (K, KP, ",".join('"%s"' % s for s in stages), _b(first_canon), _b(pair_canon), pair_stride, _b(emit_arcs), _b(emit_classes),
           _b(emit_pairs), _b(rot24))
        + "".join("INVARIANT %s\n" % i for i in invs)
        + "CHECK_DEADLOCK FALSE\n"
    )
    r = ctx.tlc_ok("ArcScope", cfg, what=what or "laws + cases on |c|<=%d stages=%s" % (K, list(stages)), workers=workers, timeout=3000)
    arcs, pairs = [], []
    for v in extract_prints(r.out):
        if v[0] == "A":
            arcs.append({"a": list(v[1]), "b": list(v[2]), "kind": v[3], "cand": [list(x) for x in v[4]],
                         "maxw": v[5], "minw": v[6], "classes": v[7]})
        elif v[0] == "P":
            pairs.append({"a": list(v[1]), "b": list(v[2]), "c": list(v[3]), "d": list(v[4]), "cls": v[5], "x": list(v[6])})
    arcs.sort(key=lambda e: (e["a"], e["b"]))
    pairs.sort(key=lambda e: (e["a"], e["b"], e["c"], e["d"]))
    return r, arcs, pairs


def judge(ctx, records, what, workers=8):
    """Run JudgeArcs over the records; returns (V lines, S lines, C lines)."""
    if not records:
        return [], [], []
    path = os.path.join(ctx.work, "arcs_%d.ndjson" % len(ctx.tlc_runs))
    with open(path, "w") as fh:
        for r in records:
            fh.write(json.dumps(r, separators=(",", ":")) + "\n")
    res = ctx.tlc_ok(
        "JudgeArcs",
        "INIT Init\nNEXT Next\nINVARIANT Judge\nCHECK_DEADLOCK FALSE\n",
        what=what,
        env={"REC_FILE": path},
        workers=workers,
        count=False,
        timeout=3000,
    )
    os.remove(path)
    pr = extract_prints(res.out)
    V = [v for v in pr if v[0] == "V"]
    S = [v for v in pr if v[0] == "S"]
    C = [v for v in pr if v[0] == "C"]
    if len(S) + len(C) != len(records):
        raise Machinery("JudgeArcs answered %d of %d records (%s)" % (len(S) + len(C), len(records), what))
    return V, S, C


# ------------------------------------------------------------------------------- lattice
def vec_of_index(i, K):
    w = 2 * K + 1
    return [i // (w * w) - K, (i // w) % w - K, i % w - K]


def index_of_vec(v, K):
    w = 2 * K + 1
    return ((v[0] + K) * w + (v[1] + K)) * w + (v[2] + K)


def vkey(v):
    return ",".join(str(int(x)) for x in v)


def rotz_int(v, k):
    k %= 4
    x, y, z = v
    if k == 0:
        return [x, y, z]
    if k == 1:
        return [-y, x, z]
    if k == 2:
        return [-x, -y, z]
    return [y, -x, z]


def unit(v):
    import numpy as np

    n = math.sqrt(v[0] * v[0] + v[1] * v[1] + v[2] * v[2])
    return np.array([v[0] / n, v[1] / n, v[2] / n], dtype=float)


def rotg(u, th):
    """Rotation of a float unit vector about the polar axis by the angle th."""
    import numpy as np

    c, s = math.cos(th), math.sin(th)
    return np.array([c * u[0] - s * u[1], s * u[0] + c * u[1], u[2]], dtype=float)


def eval_lat(d):
    """<<s, num, den>> -> s * asin(sqrt(num/den)), evaluated in the well-conditioned atan2 form."""
    s, num, den = d
    return s * math.atan2(math.sqrt(num), math.sqrt(den - num))


# ------------------------------------------------------------------------------- replay
_FN = {}


def fns():
    if not _FN:
        from . import ux as hux

        hux.import_ux()
        from uxarray.grid.arcs import extreme_gca_latitude, point_within_gca
        from uxarray.grid.intersections import gca_gca_intersection

        _FN.update(pw=point_within_gca, ex=extreme_gca_latitude, gi=gca_gca_intersection)
    return _FN


def warm_up():
    """Compile the jitted bodies once in the parent so that forked workers inherit them."""
    import numpy as np

    f = fns()
    a, b, p = unit([1, 0, 0]), unit([0, 1, 0]), unit([1, 1, 0])
    try:
        f["pw"](p, np.array([a, b]))
        f["ex"](np.array([a, b]), "max")
        f["gi"](np.array([a, b]), np.array([unit([1, 1, 1]), unit([1, 1, -1])]))
    except Exception:  # noqa  (a raising implementation is judged per case, not here)
        pass


M_VARIANTS = ["base", "swapEnds", "rotZ", "jitter", "rotG"]
X_VARIANTS = ["base", "swapEnds1", "swapEnds2", "swapArcs", "rotZ", "jitter", "rotG"]
L_VARIANTS = ["base", "swapEnds", "rotZ", "jitter", "rotG"]
M_NX, X_NX, L_NX = 3, 5, 3  # number of exact variants (the rest are perturbed replays: jitter, rotG)


def jitter(u, rng):
    """A few ulps of noise on every coordinate (x * (1 + k 2^-52), |k| <= 4; exact zeros become k * 1e-16),
    then renormalised: what normalising slightly noisy data gives a library consumer.  ~1e-15 rad, nine
    orders of magnitude below the margin of every judged case."""
    import numpy as np

    w = [(c * (1.0 + rng.randint(-4, 4) * 2.0 ** -52)) if c != 0.0 else rng.randint(-4, 4) * 1e-16 for c in u]
    w = np.array(w, dtype=float)
    return w / np.linalg.norm(w)


def jrng(jseed, j):
    import random

    return random.Random(int(jseed) * 7919 + int(j))


def m_inputs(a, b, p, v, kz, th, rng=None):
    """float inputs (pt, gca) of membership variant v (0-based)."""
    import numpy as np

    if v == 3:
        ja, jb, jp = jitter(unit(a), rng), jitter(unit(b), rng), jitter(unit(p), rng)
        return jp, np.array([ja, jb])

    if v == 0:
        return unit(p), np.array([unit(a), unit(b)])
    if v == 1:
        return unit(p), np.array([unit(b), unit(a)])
    if v == 2:
        return unit(rotz_int(p, kz)), np.array([unit(rotz_int(a, kz)), unit(rotz_int(b, kz))])
    return rotg(unit(p), th), np.array([rotg(unit(a), th), rotg(unit(b), th)])


def tilt_inputs(a, b, p, j):
    """The query point rotated out of the plane of the arc by TILT_RAD (towards +n or -n by parity)."""
    import numpy as np

    ua, ub, up = unit(a), unit(b), unit(p)
    n = np.cross(ua, ub)
    n = n / np.linalg.norm(n)
    sgn = 1.0 if j % 2 == 0 else -1.0
    q = math.cos(TILT_RAD) * up + sgn * math.sin(TILT_RAD) * n
    return q / np.linalg.norm(q), np.array([ua, ub])


def replay_member(rec):
    pw = fns()["pw"]
    a, b, K, kz, th = rec["a"], rec["b"], rec["K"], rec["kz"], rec["theta"]
    js, j0 = rec.get("jseed", 0), rec.get("j0", 0)
    out = [[0] * len(rec["pidx"]) for _ in M_VARIANTS]
    tilt = [0] * len(rec["pidx"])
    for j, i in enumerate(rec["pidx"]):
        p = vec_of_index(i, K)
        if p == [0, 0, 0]:
            continue
        for v in range(len(M_VARIANTS)):
            pt, gca = m_inputs(a, b, p, v, kz, th, jrng(js, j0 + j))
            try:
                out[v][j] = 1 if bool(pw(pt, gca)) else 0
            except Exception:  # noqa
                out[v][j] = 2
        pt, gca = tilt_inputs(a, b, p, j)
        try:
            tilt[j] = 1 if bool(pw(pt, gca)) else 0
        except Exception:  # noqa
            tilt[j] = 2
    return {"kind": "M", "id": rec["id"], "K": K, "a": a, "b": b, "pidx": rec["pidx"], "r": out, "t": tilt,
            "nx": M_NX, "jv": 4}


def x_inputs(a, b, c, d, v, kz, th, rng=None):
    """float inputs (gca1, gca2) of intersection variant v (0-based) and the map taking the float of the
    base direction x to the direction expected in this variant."""
    import numpy as np

    ident = lambda u: u  # noqa
    if v == 0:
        return np.array([unit(a), unit(b)]), np.array([unit(c), unit(d)]), ident
    if v == 1:
        return np.array([unit(b), unit(a)]), np.array([unit(c), unit(d)]), ident
    if v == 2:
        return np.array([unit(a), unit(b)]), np.array([unit(d), unit(c)]), ident
    if v == 3:
        return np.array([unit(c), unit(d)]), np.array([unit(a), unit(b)]), ident
    if v == 4:
        g = lambda w: unit(rotz_int(w, kz))  # noqa
        return np.array([g(a), g(b)]), np.array([g(c), g(d)]), None
    if v == 5:
        g = lambda w: jitter(unit(w), rng)  # noqa
        return np.array([g(a), g(b)]), np.array([g(c), g(d)]), ident
    g = lambda w: rotg(unit(w), th)  # noqa
    return np.array([g(a), g(b)]), np.array([g(c), g(d)]), None


def _token(q, xu):
    import numpy as np

    if q.shape != (3,) or not np.all(np.isfinite(q)):
        return 0
    if float(np.max(np.abs(q - xu))) <= POINT_TOL:
        return 1
    if float(np.max(np.abs(q + xu))) <= POINT_TOL:
        return 2
    return 0


def replay_pairs(rec):
    """rec: id, a, b, o: [[c, d], ...], x: [x_j] (exact, from TLC), kz, theta"""
    import numpy as np

    gi = fns()["gi"]
    a, b, kz, th = rec["a"], rec["b"], rec["kz"], rec["theta"]
    js, j0 = rec.get("jseed", 0), rec.get("j0", 0)
    out = []
    for j, ((c, d), x) in enumerate(zip(rec["o"], rec["x"])):
        row = []
        for v in range(len(X_VARIANTS)):
            g1, g2, _ = x_inputs(a, b, c, d, v, kz, th, jrng(js, j0 + j))
            if v == 4:
                xu = unit(rotz_int(x, kz))
            elif v == 6:
                xu = rotg(unit(x), th)
            else:
                xu = unit(x)
            try:
                res = np.asarray(gi(g1, g2), dtype=float)
                if res.size == 0:
                    row.append([0, 0, 0])
                else:
                    res = res.reshape(-1, 3)
                    toks = [_token(q, xu) for q in res[:2]] + [0, 0]
                    row.append([int(res.shape[0]), toks[0], toks[1]])
            except Exception:  # noqa
                row.append([-1, 0, 0])
        out.append(row)
    return {"kind": "X", "id": rec["id"], "a": a, "b": b, "o": rec["o"], "r": out, "nx": X_NX, "jv": 6}


def replay_lat(rec):
    """rec: id, a, b, cand: 4 descriptors from TLC, kz, theta"""
    import numpy as np

    ex = fns()["ex"]
    a, b, kz, th = rec["a"], rec["b"], rec["kz"], rec["theta"]
    cand = [eval_lat(d) for d in rec["cand"]]
    out = []
    for v in range(len(L_VARIANTS)):
        if v == 0:
            gca = np.array([unit(a), unit(b)])
        elif v == 1:
            gca = np.array([unit(b), unit(a)])
        elif v == 2:
            gca = np.array([unit(rotz_int(a, kz)), unit(rotz_int(b, kz))])
        elif v == 3:
            rng = jrng(rec.get("jseed", 0), 0)
            gca = np.array([jitter(unit(a), rng), jitter(unit(b), rng)])
        else:
            gca = np.array([rotg(unit(a), th), rotg(unit(b), th)])
        row = [[], [], 0]
        for k, typ in enumerate(("max", "min")):
            try:
                val = float(ex(gca, typ))
                row[k] = [w + 1 for w in range(4) if abs(val - cand[w]) <= LAT_TOL]
            except Exception:  # noqa
                row[2] = 1
        out.append(row)
    return {"kind": "L", "id": rec["id"], "a": a, "b": b, "r": out, "nx": L_NX, "jv": 4}


# ------------------------------------------------------------------------------- diagnostics
def plane_residual_member(a, b, p, v, kz, th):
    """|n . p| of the float inputs of variant v, with n = a x b as plain numpy computes it.  Used only as
    a *signature field* of an already-decided false negative (known finding C14-F2), never for a verdict."""
    import numpy as np

    pt, gca = m_inputs(a, b, p, v, kz, th, jrng(0, 0))
    return abs(float(np.dot(np.cross(gca[0], gca[1]), pt)))


def plane_residual_pair(a, b, c, d, v, kz, th):
    import numpy as np

    g1, g2, _ = x_inputs(a, b, c, d, v, kz, th, jrng(0, 0))
    n1 = np.cross(g1[0], g1[1])
    n2 = np.cross(g2[0], g2[1])
    x = np.cross(n1, n2)
    x = x / np.linalg.norm(x)
    return max(abs(float(np.dot(n1, x))), abs(float(np.dot(n2, x))))


# ------------------------------------------------------------------------------- shrunk arcs
S_KS = [1, 3, 5]  # M = 10^k: arc lengths from ~1e-1 down to ~1e-6 rad
SM_VARIANTS = ["base", "swapEnds", "jitter"]
SX_VARIANTS = ["base", "swapEnds1", "swapArcs", "jitter"]
SL_VARIANTS = ["base", "swapEnds", "jitter"]


def shr(M, w, a):
    """M w + a in exact (Python) integers; all coordinates stay far below 2^53."""
    return [M * int(w[i]) + int(a[i]) for i in range(3)]


def replay_sm(rec):
    """rec: id, K, a, b, p (interior lattice point, decided by TLC), qidx, ks, jseed"""
    import numpy as np

    pw = fns()["pw"]
    a, b, p, K, js = rec["a"], rec["b"], rec["p"], rec["K"], rec.get("jseed", 0)
    nv = len(SM_VARIANTS)
    rp, tp, rq = [], [], []
    for ki, k in enumerate(rec["ks"]):
        A, B = shr(10 ** k, p, a), shr(10 ** k, p, b)

        def ask(q, j):
            out = []
            for v in range(nv):
                if v == 0:
                    pt, gca = unit(q), np.array([unit(A), unit(B)])
                elif v == 1:
                    pt, gca = unit(q), np.array([unit(B), unit(A)])
                else:
                    rng = jrng(js, 1000 * ki + j)
                    ja, jb, jq = jitter(unit(A), rng), jitter(unit(B), rng), jitter(unit(q), rng)
                    pt, gca = jq, np.array([ja, jb])
                try:
                    out.append(1 if bool(pw(pt, gca)) else 0)
                except Exception:  # noqa
                    out.append(2)
            return out

        rp.append(ask(p, 0))
        pt, gca = tilt_inputs(A, B, p, ki)
        try:
            tp.append(1 if bool(pw(pt, gca)) else 0)
        except Exception:  # noqa
            tp.append(2)
        cols = [ask(vec_of_index(i, K), j + 1) if vec_of_index(i, K) != [0, 0, 0] else [0] * nv for j, i in enumerate(rec["qidx"])]
        rq.append([[c[v] for c in cols] for v in range(nv)])
    return {"kind": "SM", "id": rec["id"], "K": K, "a": a, "b": b, "p": p, "ks": rec["ks"], "qidx": rec["qidx"],
            "rp": rp, "tp": tp, "r": rq, "nx": 2, "jv": 3}


def replay_sx(rec):
    """rec: id, a, b, o, x (exact crossing directions from TLC, already the crossing one: +x or -x), tok, ks, jseed"""
    import numpy as np

    from . import lattice

    gi = fns()["gi"]
    a, b, js = rec["a"], rec["b"], rec.get("jseed", 0)
    out = []
    for j, ((c, d), x, w) in enumerate(zip(rec["o"], rec["x"], rec["w"])):
        n1 = np.cross(unit(a), unit(b))
        n2 = np.cross(unit(c), unit(d))
        sin_th = float(np.linalg.norm(np.cross(n1 / np.linalg.norm(n1), n2 / np.linalg.norm(n2))))
        xu = unit(x)
        rows = []
        for ki, k in enumerate(rec["ks"]):
            M = 10 ** k
            A, B, C, D = (shr(M, w, e) for e in (a, b, c, d))
            # the floats of the shrunk endpoints carry ~1e-16 of rounding, which turns the planes of arcs of length
            # len by ~1e-16/len: the crossing point of the *float* arcs is only that close to the exact x
            ln = min(lattice.ang_between(unit(A), unit(B)), lattice.ang_between(unit(C), unit(D)))
            tol = POINT_TOL + 2e-15 / (ln * sin_th)
            row = []
            for v in range(len(SX_VARIANTS)):
                if v == 0:
                    g1, g2 = np.array([unit(A), unit(B)]), np.array([unit(C), unit(D)])
                elif v == 1:
                    g1, g2 = np.array([unit(B), unit(A)]), np.array([unit(C), unit(D)])
                elif v == 2:
                    g1, g2 = np.array([unit(C), unit(D)]), np.array([unit(A), unit(B)])
                else:
                    rng = jrng(js, 1000 * ki + j)
                    g1 = np.array([jitter(unit(A), rng), jitter(unit(B), rng)])
                    g2 = np.array([jitter(unit(C), rng), jitter(unit(D), rng)])
                try:
                    res = np.asarray(gi(g1, g2), dtype=float)
                    if res.size == 0:
                        row.append([0, 0, 0])
                    else:
                        res = res.reshape(-1, 3)
                        toks = []
                        for q in res[:2]:
                            ok = np.all(np.isfinite(q))
                            toks.append(1 if ok and np.max(np.abs(q - xu)) <= tol else 2 if ok and np.max(np.abs(q + xu)) <= tol else 0)
                        toks += [0, 0]
                        row.append([int(res.shape[0]), toks[0], toks[1]])
                except Exception:  # noqa
                    row.append([-1, 0, 0])
            rows.append(row)
        out.append(rows)
    return {"kind": "SX", "id": rec["id"], "a": a, "b": b, "o": rec["o"], "ks": rec["ks"], "r": out, "nx": 3, "jv": 4}


def replay_sl(rec):
    """rec: id, a, b, p, cand (TLC's descriptors of the base arc: [.., .., top, bottom]), ks, jseed"""
    import numpy as np

    ex = fns()["ex"]
    a, b, p, js = rec["a"], rec["b"], rec["p"], rec.get("jseed", 0)
    top, bottom = eval_lat(rec["cand"][2]), eval_lat(rec["cand"][3])
    out = []
    for ki, k in enumerate(rec["ks"]):
        A, B = shr(10 ** k, p, a), shr(10 ** k, p, b)
        la = math.atan2(A[2], math.hypot(A[0], A[1]))
        lb = math.atan2(B[2], math.hypot(B[0], B[1]))
        cand = {3: top, 4: bottom, 5: max(la, lb), 6: min(la, lb)}
        rows = []
        for v in range(len(SL_VARIANTS)):
            if v == 0:
                gca = np.array([unit(A), unit(B)])
            elif v == 1:
                gca = np.array([unit(B), unit(A)])
            else:
                rng = jrng(js, ki)
                gca = np.array([jitter(unit(A), rng), jitter(unit(B), rng)])
            row = [[], [], 0]
            for t, typ in enumerate(("max", "min")):
                try:
                    val = float(ex(gca, typ))
                    row[t] = [w for w in (3, 4, 5, 6) if abs(val - cand[w]) <= LAT_TOL]
                except Exception:  # noqa
                    row[2] = 1
            rows.append(row)
        out.append(rows)
    return {"kind": "SL", "id": rec["id"], "a": a, "b": b, "p": p, "ks": rec["ks"], "r": out, "nx": 2, "jv": 3}


# ------------------------------------------------------------------------------- call histories (ArcCalls.tla)
CALL_POOL = [[[1, 0, 0], [0, 1, 0]], [[0, 1, 0], [-1, 0, 0]], [[1, 0, 1], [0, 1, 1]]]
CALL_ARGS = {
    "pw": [[1, 1, 0], [1, 1, 2]],                                   # interior of pool[0] (beyond pool[1]); interior of pool[2]
    "ex": [[0, 0, 0], [0, 0, 0]],                                   # unused
    "gi": [[[1, 1, 1], [1, 1, -1]], [[1, 1, 1], [1, 1, 3]]],        # crosses pool[0] only; crosses pool[2] only
    "cl": [[1, 9, 16], [1, 1, 4]],                                  # z = 3/4 (pool[2] bulges over it: 2), z = 1/2
}
CALL_PROBE = [[1, 1, 0], [-1, 1, 0], [1, 1, 2]]
CALL_FORMS = ["buffer", "alias", "copy", "list", "strided", "fortran", "f32"]
CALL_FORMS_BASIC = ["buffer", "alias", "copy", "list"]
CALL_NBUF = 2


def _tla(v):
    return "<<%s>>" % ", ".join(_tla(x) if isinstance(x, list) else str(x) for x in v)


def calls_module():
    """TLC configuration files cannot spell tuples: the pool and the probe points live in a generated wrapper module."""
    return ("---- MODULE ArcCallsMC ----\nEXTENDS ArcCalls\nPoolC == %s\nProbeC == {%s}\n====\n"
            % (_tla(CALL_POOL), ", ".join(_tla(p) for p in CALL_PROBE)))


def calls_cfg(memo, max_steps, forms, emit):
    return (
        "SPECIFICATION Spec\nCONSTANTS\n Pool <- PoolC\n Probe <- ProbeC\n NArg = 2\n NBuf = %d\n MaxSteps = %d\n Forms = {%s}\n Memo = \"%s\"\n Emit = %s\n"
        % (CALL_NBUF, max_steps, ", ".join('"%s"' % f for f in forms), memo, "TRUE" if emit else "FALSE")
        + "INVARIANT TypeOK\nINVARIANT ValueSemantics\nINVARIANT PoolDistinguishes\nINVARIANT EmitHist\nCHECK_DEADLOCK FALSE\n"
    )


def as_form(buf, alias, form):
    """The buffer's current contents in the requested shape of argument (fresh objects except buffer / alias)."""
    import numpy as np

    if form == "buffer":
        return buf
    if form == "alias":
        return alias
    if form == "copy":
        return buf.copy()
    if form == "list":
        return [buf[0].copy(), buf[1].copy()]
    if form == "strided":
        wide = np.zeros((2, 6))
        wide[:, ::2] = buf
        return wide[:, ::2]
    if form == "fortran":
        return np.asfortranarray(buf)
    if form == "f32":
        return buf.astype(np.float32).astype(np.float64)
    raise ValueError(form)


def replay_history(rec):
    """rec: id, fn, steps.  Real caller-owned buffers, really overwritten in place, really reused."""
    import numpy as np

    f = fns()
    if "cl" not in f:
        from uxarray.grid.intersections import gca_const_lat_intersection

        f["cl"] = gca_const_lat_intersection
    fn, args = rec["fn"], CALL_ARGS[rec["fn"]]
    bufs = [np.empty((2, 3)) for _ in range(CALL_NBUF)]
    for b in bufs:
        b[0], b[1] = unit(CALL_POOL[0][0]), unit(CALL_POOL[0][1])
    alias = [b[:] for b in bufs]
    cand = [(10 * (e + 1) + w, val) for e, (a, b) in enumerate(CALL_POOL) for w, val in rec["cand"][e]] if fn == "ex" else []
    out = []
    for s in rec["steps"]:
        if s[0] == "O":
            k, e = s[1] - 1, s[2] - 1
            bufs[k][0] = unit(CALL_POOL[e][0])      # in place
            bufs[k][1] = unit(CALL_POOL[e][1])
            out.append([0])
            continue
        k, form, j = s[1] - 1, s[2], s[3] - 1
        gca = as_form(bufs[k], alias[k], form)
        try:
            if fn == "pw":
                out.append([1 if bool(f["pw"](unit(args[j]), gca)) else 0])
            elif fn == "ex":
                vmax, vmin = float(f["ex"](gca, "max")), float(f["ex"](gca, "min"))
                out.append([[c for c, val in cand if abs(vmax - val) <= LAT_TOL], [c for c, val in cand if abs(vmin - val) <= LAT_TOL], 0])
            elif fn == "gi":
                res = np.asarray(f["gi"](gca, np.array([unit(args[j][0]), unit(args[j][1])])), dtype=float)
                out.append([0 if res.size == 0 else int(res.reshape(-1, 3).shape[0])])
            else:
                s_, num, den = args[j]
                res = np.asarray(f["cl"](gca, s_ * math.sqrt(num / den)), dtype=float)
                out.append([0 if res.size == 0 else int(res.reshape(-1, 3).shape[0])])
        except Exception:  # noqa
            out.append([2] if fn == "pw" else [[], [], 1] if fn == "ex" else [-1])
    return {"id": rec["id"], "fn": fn, "nbuf": CALL_NBUF, "pool": CALL_POOL, "args": args,
            "steps": [list(s) + [0] * (4 - len(s)) for s in rec["steps"]], "r": out}

"""C18 replay driver: build a primal grid from a case, call Grid.get_dual() and
UxDataArray.get_dual(), project what they return.  Nothing here decides a verdict: the
records are judged by TLC (tla/JudgeDual.tla).  The only float work is the projection of
positions to face ids (nearest oracle centre within the tolerance).

Also the entry point of the JIT-off subprocess:
    NUMBA_DISABLE_JIT=1 python -m harness.x_c18 cases.json records.ndjson
"""

from __future__ import annotations

import json
import math
import sys

POS_TOL = 1e-8  # rad; the library's pole-snap tolerance, the coarsest the property family allows

PRE_ACCESS = [
    [],
    ["face_lon"],
    ["node_x", "face_x"],
    ["node_face_connectivity"],
    ["edge_node_connectivity", "face_lat"],
    ["n_nodes_per_face", "face_z"],
]


# data layouts for UxDataArray.get_dual: grid dimension first, in the middle, last; both centrings
LAYOUTS = [
    [("n_face", "lev"), ("time", "n_node", "lev")],
    [("n_node", "lev"), ("time", "n_face", "lev")],
    [("lev", "n_face", "time"), ("n_node", "time")],
    [("n_face", "time", "lev"), ("lev", "n_node")],
]


def lonlat_of_case(case):
    """Node (lon, lat) in degrees.  A pole's longitude is arbitrary and a node on the
    antimeridian may be given as +180 or -180: both are varied with the case."""
    from . import lattice

    if "lon" in case:
        return list(case["lon"]), list(case["lat"])
    k = case.get("variant", 0)
    pole_lon = (0.0, 123.0, -180.0, 45.5)[k % 4]
    anti = (180.0, -180.0)[(k // 2) % 2]
    lon, lat = [], []
    for v in case["nodes"]:
        lo, la = lattice.lonlat_deg(v)
        if v[0] == 0 and v[1] == 0:
            lo = pole_lon
        elif v[1] == 0 and v[0] < 0:
            lo = anti
        lon.append(lo)
        lat.append(la)
    return lon, lat


def unit_of_lonlat(lon, lat):
    lo, la = math.radians(lon), math.radians(lat)
    return (math.cos(la) * math.cos(lo), math.cos(la) * math.sin(lo), math.sin(la))


def oracle_centres(case, lon, lat):
    """Face centres by the property's definition (normalised mean of the corner unit vectors),
    from the exact integer directions when the case has them, else from the input lon/lat."""
    from . import lattice

    out = []
    for f in case["faces"]:
        if "nodes" in case:
            out.append(lattice.centroid_dir([case["nodes"][k] for k in f]))
        else:
            us = [unit_of_lonlat(lon[k], lat[k]) for k in f]
            s = [math.fsum(u[i] for u in us) for i in range(3)]
            n = math.sqrt(s[0] ** 2 + s[1] ** 2 + s[2] ** 2)
            out.append((s[0] / n, s[1] / n, s[2] / n))
    return out


SNAP = 1e-8  # the library snaps a derived position to the pole when 1 - |z| < 1e-8 (a cap of ~1.4e-4 rad)


def off_centres(case, lon, lat):
    """Face centres a source may legitimately ship that are NOT the vertex centroid (circumcentres, Voronoi
    generators, box mid points): a weighted mean of the corner unit vectors, strictly inside the convex face."""
    from . import lattice

    out = []
    for f in case["faces"]:
        us = [lattice.unit(case["nodes"][k]) for k in f] if "nodes" in case else [unit_of_lonlat(lon[k], lat[k]) for k in f]
        w = [3.0] + [1.0] * (len(us) - 2) + [2.0]
        s3 = [math.fsum(wi * u[i] for wi, u in zip(w, us)) for i in range(3)]
        n = math.sqrt(s3[0] ** 2 + s3[1] ** 2 + s3[2] ** 2)
        out.append((s3[0] / n, s3[1] / n, s3[2] / n))
    return out


def fingerprint(g):
    """Bitwise fingerprint of every variable the grid stores (observation only)."""
    import hashlib

    import numpy as np

    out = {}
    for k, v in g._ds.variables.items():
        a = np.ascontiguousarray(np.asarray(v.values))
        out[str(k)] = (str(a.dtype), tuple(a.shape), hashlib.sha1(a.tobytes()).hexdigest())
    return out


PARENT_OPS = ["node_faces", "get_dual", "centres", "edges"]


def selection(kind, pat, n):
    if kind == "n_face":
        keep = {1: lambda i: i % 3 != 0, 2: lambda i: i < 0.6 * n, 3: lambda i: i % 4 != 1}[pat]
    else:
        keep = {1: lambda i: i % 5 == 0, 2: lambda i: i < 0.3 * n, 3: lambda i: i % 7 in (0, 3)}[pat]
    return [i for i in range(n) if keep(i)] or [0]


def derive(g, case, lon):
    """A scenario of DualDerive.tla: read things on the parent, slice it; the derived grid's own tables are the input."""
    import numpy as np

    from . import ux as hux

    d = case["derive"]
    for op in PARENT_OPS:
        if op in d["ops"]:
            if op == "node_faces":
                g.node_face_connectivity
            elif op == "get_dual":
                g.get_dual()
            elif op == "centres":
                g.face_lon
            elif op == "edges":
                g.edge_node_connectivity
    faces = case["faces"]
    n = {"n_face": len(faces), "n_node": len(lon),
         "n_edge": len({frozenset((f[i], f[(i + 1) % len(f)])) for f in faces for i in range(len(f))})}[d["kind"]]  # fmt: skip
    sub = g.isel(**{d["kind"]: selection(d["kind"], d["pat"], n)})
    rows, _, _ = hux.table(sub.face_node_connectivity)
    case["faces"] = [[x for x in r if x >= 0] for r in rows]
    case.pop("nodes", None)
    case.pop("expect", None)
    slon = [float(x) for x in np.asarray(sub.node_lon.values)]
    slat = [float(x) for x in np.asarray(sub.node_lat.values)]
    case["n_node"] = len(slon)
    case["lon"], case["lat"] = slon, slat
    return sub, slon, slat, oracle_centres(case, slon, slat)


def match_positions(lons, lats, centres):
    """For each reported position the id of the centre it coincides with (-1 if none), and how many
    were accepted only through the library's pole snap.  Position i is compared with centre i first
    (several centres may coincide once snapped); inside the snap cap the property family (C04) allows the
    reported position to be the pole itself, so there both only have to lie in the cap of the same pole."""
    import numpy as np

    if len(lons) == 0:
        return [], 0
    c = np.array(centres, dtype=float)
    p = np.array([unit_of_lonlat(float(a), float(b)) for a, b in zip(lons, lats)])
    out, snapped = [], 0

    def ang(u, q):
        cr = np.cross(u, q)
        return np.arctan2(np.sqrt((cr * cr).sum(axis=-1)), u @ q)

    for i, q in enumerate(p):
        if i < len(c):
            if ang(c[i], q) <= POS_TOL:
                out.append(i)
                continue
            if 1.0 - abs(c[i][2]) < 1.5 * SNAP and 1.0 - abs(q[2]) < 1.5 * SNAP and c[i][2] * q[2] > 0:
                out.append(i)
                snapped += 1
                continue
        a = ang(c, q)
        j = int(np.argmin(a))
        out.append(j if a[j] <= POS_TOL else -1)
    return out, snapped


def build_primal(case):
    import numpy as np

    from . import ux as hux

    ux = hux.import_ux()
    _, FILL = hux.consts()
    lon, lat = lonlat_of_case(case)
    centroid = oracle_centres(case, lon, lat)
    prov0 = case.get("prov") or {}
    cen = off_centres(case, lon, lat) if prov0.get("offc") else centroid      # what the source ships
    kw = {}
    mode = case.get("centres", "derived")
    if mode in ("lonlat_only", "both"):
        kw["face_lon"] = np.array([math.degrees(math.atan2(c[1], c[0])) for c in cen])
        kw["face_lat"] = np.array([math.degrees(math.asin(max(-1.0, min(1.0, c[2])))) for c in cen])
    if mode in ("xyz_only", "both"):
        kw["face_x"] = np.array([c[0] for c in cen])
        kw["face_y"] = np.array([c[1] for c in cen])
        kw["face_z"] = np.array([c[2] for c in cen])
    prov = case.get("prov")
    if prov is None:
        g = ux.Grid.from_topology(
            np.array(lon, dtype=float), np.array(lat, dtype=float), hux.pad_table(case["faces"]), fill_value=FILL, **kw
        )
        return ux, g, lon, lat, cen
    # a scenario of DualProv.tla: provenance of nodes and centres, radius of the supplied Cartesian arrays
    import xarray as xr

    R = {"1": 1.0, "2": 2.0, "6371229": 6371229.0, "1/2": 0.5}[prov["radius"]]
    if "nodes" in case:
        from . import lattice

        un = [lattice.unit(v) for v in case["nodes"]]
    else:
        un = [unit_of_lonlat(a, b) for a, b in zip(lon, lat)]
    arr = {}
    if prov["nodes"] in ("lonlat", "both"):
        arr["node_lon"], arr["node_lat"] = np.array(lon, dtype=float), np.array(lat, dtype=float)
    if prov["nodes"] in ("xyz", "both"):
        for j, c in enumerate("xyz"):
            arr["node_" + c] = np.array([R * u[j] for u in un])
    if prov["centres"] in ("lonlat", "both"):
        arr["face_lon"] = np.array([math.degrees(math.atan2(c[1], c[0])) for c in cen])
        arr["face_lat"] = np.array([math.degrees(math.asin(max(-1.0, min(1.0, c[2])))) for c in cen])
    if prov["centres"] in ("xyz", "both"):
        for j, c in enumerate("xyz"):
            arr["face_" + c] = np.array([R * q[j] for q in cen])
    conn = hux.pad_table(case["faces"])
    if prov["nodes"] != "xyz" and case.get("variant", 0) % 2 == 0:
        extra = {k: v for k, v in arr.items() if k not in ("node_lon", "node_lat")}
        g = ux.Grid.from_topology(arr["node_lon"], arr["node_lat"], conn, fill_value=FILL, **extra)
    else:
        ds = xr.Dataset()
        for k, v in arr.items():
            ds[k] = xr.DataArray(v, dims=["n_node" if k.startswith("node") else "n_face"])
        ds["face_node_connectivity"] = xr.DataArray(
            conn, dims=["n_face", "n_max_face_nodes"],
            attrs={"cf_role": "face_node_connectivity", "_FillValue": FILL, "start_index": 0},
        )  # fmt: skip
        g = ux.Grid.from_dataset(ds, source_grid_spec="UGRID")
    for op in prov.get("hist", []):
        if op == "face_lon":
            g.face_lon
        elif op == "construct_face_centers":
            g.construct_face_centers()
        elif op == "normalize":
            g.normalize_cartesian_coordinates()
    # where the dual's nodes must be (decided by DualProv.tla): the shipped centres, or the centroid
    return ux, g, lon, lat, (cen if prov.get("dual_nodes_at", "centroid") == "shipped" else centroid)


def open_file_case(case):
    """Sample file of the repository: the mesh is what the grid itself reports as its input table."""
    import numpy as np

    from . import ux as hux

    ux = hux.import_ux()
    g = ux.open_grid(case["file"], **case.get("open_kwargs", {}))
    rows, _, _ = hux.table(g.face_node_connectivity)
    case["faces"] = [[x for x in r if x >= 0] for r in rows]
    lon = [float(x) for x in np.asarray(g.node_lon.values)]
    lat = [float(x) for x in np.asarray(g.node_lat.values)]
    case["n_node"] = len(lon)
    g = ux.open_grid(case["file"], **case.get("open_kwargs", {}))  # fresh object: nothing accessed yet
    return ux, g, lon, lat, oracle_centres(case, lon, lat)


def faces_ccw_float(case, lon, lat):
    """Float pre-check for inputs that are not TLC-certified (random planar patches, files):
    every face is counter-clockwise seen from outside.  A precondition, not a verdict."""
    for f in case["faces"]:
        us = [unit_of_lonlat(lon[k], lat[k]) for k in f]
        c = [sum(u[i] for u in us) for i in range(3)]
        tot, mag = 0.0, 0.0
        for a, b in zip(us, us[1:] + us[:1]):
            t = c[0] * (a[1] * b[2] - a[2] * b[1]) + c[1] * (a[2] * b[0] - a[0] * b[2]) + c[2] * (a[0] * b[1] - a[1] * b[0])
            tot += t
            mag += abs(t)
        if not (tot > 0.0 and tot > 0.5 * mag):  # relative: fine faces have tiny areas
            return False
    return True


def record_case(case):
    import numpy as np

    from . import ux as hux

    rec = {"id": case["id"], "closed": bool(case["closed"])}
    stage = "build"
    try:
        if "file" in case:
            ux, g, lon, lat, cen = open_file_case(case)
        else:
            ux, g, lon, lat, cen = build_primal(case)
        if "derive" in case:
            stage = "parent history / isel"
            g, lon, lat, cen = derive(g, case, lon)
            stage = "build"
        rec["mesh"] = case["faces"]
        rec["n_node"] = case.get("n_node", len(lon))
        if case.get("check_ccw") and not faces_ccw_float(case, lon, lat):
            rec["skip"] = "input faces are not all counter-clockwise (float pre-check)"
            return rec
        if "expect" in case:
            rec["expect"] = case["expect"]
        for name in PRE_ACCESS[case.get("variant", 0) % len(PRE_ACCESS)]:
            getattr(g, name)
        stage = "Grid.get_dual"
        before = fingerprint(g)
        try:
            d = g.get_dual()
        except RuntimeError as e:
            if "uplicate" in str(e):
                rec["skip"] = "duplicate nodes: outside the property's quantifier"
                return rec
            raise
        after = fingerprint(g)
        rec["primal_changed"] = sorted(k for k in before if after.get(k) != before[k])
        stage = "dual.face_node_connectivity"
        rows, dt, fl = hux.table(d.face_node_connectivity)
        rec["dual"] = rows
        rec["flags"] = {"dual_dtype": dt, "dual_fill": fl}
        stage = "dual sizes"
        rec["dn_node"] = int(d.n_node)
        rec["dn_face"] = int(d.n_face)
        if case["closed"]:
            rec["dn_edge"] = int(d.n_edge)
        stage = "dual node positions"
        if "file" not in case:
            # independent oracle (normalised mean of the corner unit vectors).  A file may supply its own
            # centres (MPAS: the cell's generating point), then "the face's centre" is the supplied one.
            rec["pos"], rec["pos_snapped"] = match_positions(d.node_lon.values, d.node_lat.values, cen)
        own = [unit_of_lonlat(float(a), float(b)) for a, b in zip(g.face_lon.values, g.face_lat.values)]
        rec["posown"], _ = match_positions(d.node_lon.values, d.node_lat.values, own)
        if case["closed"] and case.get("data", True):
            nf, nn = len(case["faces"]), rec["n_node"]
            stage = "UxDataArray.get_dual (face-centred)"
            base = 100 + 7 * (case.get("variant", 0) % 5)
            fda = ux.UxDataArray(np.arange(nf, dtype=np.int64) + base, dims=["n_face"], uxgrid=g, name="tracer")
            fd = fda.get_dual()
            rec["fdata"] = {"dims": [str(x) for x in fd.dims], "vals": [int(x) for x in np.asarray(fd.values).ravel()], "base": base}
            rec["dual2"] = hux.table(fd.uxgrid.face_node_connectivity)[0]
            if "file" not in case:
                rec["pos_da"], _ = match_positions(fd.uxgrid.node_lon.values, fd.uxgrid.node_lat.values, cen)
            stage = "UxDataArray.get_dual (node-centred)"
            nda = ux.UxDataArray(
                (np.arange(2 * nn, dtype=np.int64) + base).reshape(2, nn), dims=["time", "n_node"], uxgrid=g, name="tracer2"
            )
            nd = nda.get_dual()
            vals = np.asarray(nd.values)
            rec["ndata"] = {
                "dims": [str(x) for x in nd.dims],
                "vals": [[int(x) for x in row] for row in vals] if vals.ndim == 2 else [[int(x) for x in vals.ravel()]],
                "base": base,
            }
            rec["dual3"] = hux.table(nd.uxgrid.face_node_connectivity)[0]
            # the grid dimension first / in the middle, both directions (dims are swapped by name)
            stage = "UxDataArray.get_dual (layouts)"
            sizes = {"n_face": nf, "n_node": nn, "lev": 3, "time": 2}
            lays = []
            for in_dims in LAYOUTS[case.get("variant", 0) % len(LAYOUTS)]:
                shape = [sizes[d] for d in in_dims]
                n = int(np.prod(shape))
                lda = ux.UxDataArray(
                    (np.arange(n, dtype=np.int64) + base).reshape(shape), dims=list(in_dims), uxgrid=g, name="layout"
                )
                ld = lda.get_dual()
                lv = np.asarray(ld.values)
                lays.append({"in_dims": list(in_dims), "out_dims": [str(x) for x in ld.dims],
                             "shape": [int(x) for x in lv.shape], "vals": [int(x) for x in lv.ravel()], "base": base})  # fmt: skip
            rec["layouts"] = lays
            if case.get("variant", 0) % 2 == 0:
                stage = "UxDataset (construction)"
                try:
                    ds = ux.UxDataset(uxgrid=g)
                    ds["a"] = ux.UxDataArray(np.arange(nf, dtype=np.int64) + base, dims=["n_face"], uxgrid=g)
                    ds["b"] = ux.UxDataArray(
                        (np.arange(2 * nn, dtype=np.int64) + base).reshape(2, nn), dims=["time", "n_node"], uxgrid=g
                    )
                except Exception as e:  # building a dataset is not C18's subject (C10): recorded, not judged
                    rec["dataset_unavailable"] = "%s: %s" % (type(e).__name__, str(e)[:120])
                    ds = None
                if ds is not None:
                    stage = "UxDataset.get_dual"
                    dd = ds.get_dual()
                    va, vb = np.asarray(dd["a"].values), np.asarray(dd["b"].values)
                    rec["dsdata"] = {
                        "adims": [str(x) for x in dd["a"].dims],
                        "avals": [int(x) for x in va.ravel()],
                        "bdims": [str(x) for x in dd["b"].dims],
                        "bvals": [[int(x) for x in row] for row in vb] if vb.ndim == 2 else [[int(x) for x in vb.ravel()]],
                        "base": base,
                    }
                    rec["dual4"] = hux.table(dd.uxgrid.face_node_connectivity)[0]
        if case["closed"] and case.get("data", True):
            final = fingerprint(g)
            rec["primal_changed_by_data_routes"] = sorted(k for k in after if final.get(k) != after[k])
    except Exception as e:  # noqa: the property promises a value; the exception is part of the record
        rec["error"] = "%s: %s: %s" % (stage, type(e).__name__, str(e)[:200])
    return rec


# ----------------------------------------------------------------------------- crash-proof pool
def _chunk_worker(conn, cases):
    try:
        conn.send([record_case(c) for c in cases])
    finally:
        conn.close()


def _start_isolated(cases):
    import multiprocessing as mp

    ctx = mp.get_context("fork")
    a, b = ctx.Pipe(duplex=False)
    p = ctx.Process(target=_chunk_worker, args=(b, cases))
    p.start()
    b.close()
    return p, a


def _finish_isolated(p, a, timeout):
    """Records of the child, or None if it died or hung (jitted code can corrupt the heap when an
    index is wrong, which kills or wedges the interpreter instead of raising)."""
    out = None
    try:
        if a.poll(timeout):
            out = a.recv()
    except (EOFError, OSError):
        out = None
    p.join(5 if out is not None else 0.1)
    if p.is_alive():
        p.kill()
        p.join()
    return out, p.exitcode


def safe_map(cases, nproc=None, max_crashes=3, isolate_budget=120.0):
    """Ordered map of record_case over cases with forked workers.

    If a worker dies or hangs, the unfinished chunks are re-run, each in a process of its own; chunks
    that fail again are re-run case by case to find the cases that kill the interpreter: those get an
    `error` record (the property promises a value, not a crash).  After max_crashes such cases, or
    isolate_budget seconds, the remaining cases of broken chunks are marked `notrun` (the run is
    already a violation then; the caller refuses `notrun` without an `error`)."""
    import os
    import time
    from concurrent.futures import ProcessPoolExecutor, as_completed
    import multiprocessing as mp

    from . import ux as hux

    hux.import_ux()
    cases = list(cases)
    if nproc is None:
        nproc = int(os.environ.get("VERIF_NPROC", "0")) or min(16, os.cpu_count() or 4)
    size = max(1, min(100, len(cases) // (nproc * 4) or 1))
    chunks = [cases[i : i + size] for i in range(0, len(cases), size)]
    results = [None] * len(chunks)
    ex = ProcessPoolExecutor(nproc, mp_context=mp.get_context("fork"))
    futs = {ex.submit(_pool_chunk, ch): k for k, ch in enumerate(chunks)}
    try:
        for fut in as_completed(futs, timeout=max(240.0, 1.0 * len(cases))):
            try:
                results[futs[fut]] = fut.result()
            except Exception:  # BrokenProcessPool: some worker died
                pass
    except Exception:  # TimeoutError: a worker hangs; the unfinished chunks are re-run below
        pass
    procs = list(getattr(ex, "_processes", {}).values())
    ex.shutdown(wait=False, cancel_futures=True)
    for p in procs:
        if p.is_alive():
            p.kill()
    # second chance per chunk, nproc at a time
    broken = [k for k in range(len(chunks)) if results[k] is None]
    info = {"chunks": len(chunks), "broken_chunks": len(broken), "crashing_cases": 0}
    for i in range(0, len(broken), nproc):
        started = [(k,) + _start_isolated(chunks[k]) for k in broken[i : i + nproc]]
        for k, p, a in started:
            out, _ = _finish_isolated(p, a, 180)
            results[k] = out
    # case by case for what still fails
    crashes = 0
    t0 = time.time()
    for k in broken:
        if results[k] is not None:
            continue
        out = []
        for c in chunks[k]:
            if crashes >= max_crashes or time.time() - t0 > isolate_budget:
                out.append({"id": c["id"], "closed": bool(c["closed"]), "notrun": "earlier cases killed the interpreter"})
                continue
            r, code = _finish_isolated(*_start_isolated([c]), 60)
            if r is None:
                crashes += 1
                out.append({"id": c["id"], "closed": bool(c["closed"]),
                            "error": "get_dual: the interpreter died or hung (exit code %s) while replaying this case" % code})  # fmt: skip
            else:
                out.append(r[0])
        results[k] = out
    info["crashing_cases"] = crashes
    return [r for ch in results for r in ch], info


def _pool_chunk(cases):
    return [record_case(c) for c in cases]


def freeze_jit_off():
    """JIT off for the whole package.  NUMBA_DISABLE_JIT=1 alone is not enough: uxarray/grid/area.py
    executes `config.DISABLE_JIT = not ENABLE_JIT` at import and switches the JIT back on for every
    module imported after it (dual.py among them).  The assignment is made a no-op here, before
    uxarray is imported; /repo is not touched."""
    import types

    import numba.core.config as cfg

    if not cfg.DISABLE_JIT:
        raise RuntimeError("NUMBA_DISABLE_JIT=1 is not in effect")

    class _Frozen(types.ModuleType):
        def __setattr__(self, k, v):
            if k == "DISABLE_JIT":
                return
            super().__setattr__(k, v)

    cfg.__class__ = _Frozen


def main(argv):
    src, dst = argv
    freeze_jit_off()
    from . import ux as hux

    hux.import_ux()
    from uxarray.grid import dual as _dual

    if not isinstance(_dual.construct_faces, type(main)):
        raise RuntimeError("JIT is still on for uxarray.grid.dual: %r" % type(_dual.construct_faces))
    with open(src) as fh:
        cases = json.load(fh)
    with open(dst + ".tmp", "w") as fh:
        for c in cases:
            fh.write(json.dumps(record_case(c)) + "\n")
    import os

    os.replace(dst + ".tmp", dst)
    return 0


if __name__ == "__main__":
    sys.exit(main(sys.argv[1:]))

"""C10 replay engine: applies the operations named by tla/UxOps.tla to a real UxDataArray and,
in lock-step, to a plain xarray.DataArray holding the same data; projects every result to the
vocabulary of the specification.  Nothing here decides what an operation SHOULD do: expected
states come from TLC (successor tables / simulation), verdicts from TraceUxOps.tla."""

from __future__ import annotations

import copy as _copy

import numpy as np

from . import catalog, lattice
from . import ux as hux

GRID_KINDS = ("n_face", "n_node", "n_edge")
LEAD_KINDS = ("time", "lev", "run")
ELEMENT = {"n_face": "face centers", "n_node": "nodes", "n_edge": "edge centers"}
TOPO = {"topo_mean_face": ("topological_mean", "face"), "topo_mean_edge": ("topological_mean", "edge"),
        "topo_max_face": ("topological_max", "face"), "topo_min_edge": ("topological_min", "edge")}
REMAP = {"remap_nn_face": ("nn", "face centers"), "remap_nn_node": ("nn", "nodes"), "remap_nn_edge": ("nn", "edge centers"),
         "remap_idw_face": ("idw", "face centers"), "remap_idw_node": ("idw", "nodes")}
SUBSET_OPS = {"isel_grid_kw", "subset_nn", "isel_grid_slice_kw", "isel_grid_step_kw", "isel_grid_rev_kw", "isel_grid_array_kw", "isel_grid_mask_kw"}
OWN_OPS = set(TOPO) | set(REMAP) | {"integrate", "gradient", "difference", "get_dual"} | SUBSET_OPS
FREE_OPS = {"getitem_grid_slice", "isel_grid_dict", "isel_grid_indexers", "head_grid", "diff_grid", "pad_grid", "concat_self_grid",
            "isel_grid_step_dict", "isel_grid_step_indexers", "getitem_grid_step", "isel_grid_rev_dict", "isel_grid_rev_indexers",
            "getitem_grid_rev", "getitem_grid_mask"}
SELECT_OPS = SUBSET_OPS | (FREE_OPS - {"diff_grid", "pad_grid", "concat_self_grid"})
STEP = slice(None, None, 2)
REV = slice(None, None, -1)


def _mask(x, g):
    m = np.zeros(x.sizes[g], dtype=bool)
    m[[0, 1] if x.sizes[g] >= 3 else [0]] = True
    return m

COPY_OPS = {"copy_default", "copy_deep", "deepcopy"}
REDUCERS = {"mean", "sum", "max", "min", "std", "var", "median", "prod", "count"}

_ENV = {}
# dataset-level operation -> the array-level operation whose effect it has (filled from TLC's output: UxOps!DsBase)
BASE = {}


BASE2 = {}   # (generic selection, indexer kind) -> base operation (UxOps!GselBase)
GSEL_OPS = {"gsel_kw", "gsel_dict", "gsel_indexers", "gsel_getitem", "ds_gsel", "grid_gsel"}


def base(op, ix="-"):
    if op in GSEL_OPS:
        return BASE2[(op, ix)]
    return BASE.get(op, op)


def make_indexer(ix, x, g):
    """The indexer of kind `ix` for grid dimension g of x (UxDataArray or plain DataArray)."""
    import xarray as xr

    n = x.sizes[g]
    two = [0, 1] if n >= 3 else [0]
    marks = [1, 3] if n >= 4 else [0]
    m = np.zeros(n, dtype=bool)
    m[marks] = True
    is_ux = hasattr(x, "uxgrid")

    def da(vals):
        if is_ux:
            return hux.import_ux().UxDataArray(vals, dims=[g], uxgrid=x.uxgrid)
        return xr.DataArray(vals, dims=[g])

    if ix == "ilist": return list(two)
    if ix == "ituple": return tuple(two)
    if ix == "i32": return np.array(two, dtype=np.int32)
    if ix == "i64": return np.array(two, dtype=np.int64)
    if ix == "ixda": return xr.DataArray(np.array(two), dims=[g])
    if ix == "iuxda": return da(np.array(two))
    if ix == "irange": return range(0, len(two))
    if ix == "repeated": return [1, 1, 0] if n >= 2 else [0, 0]
    if ix == "unsorted": return [2, 0] if n >= 3 else [0]
    if ix == "blist": return m.tolist()
    if ix == "bnd": return m
    if ix == "bxda": return xr.DataArray(m, dims=[g])
    if ix == "buxda":
        t = da(np.arange(n, dtype=float))          # a comparison on data living on the grid
        out = (t == float(marks[0]))
        for k in marks[1:]:
            out = out | (t == float(k))
        return out
    if ix == "scalar": return 0
    if ix == "s_bounded": return slice(0, 2)
    if ix == "s_step": return STEP
    if ix == "s_rev": return REV
    if ix == "s_neg": return slice(-2, None)
    if ix == "s_negstop": return slice(None, -1)
    if ix == "s_none": return slice(None)
    if ix == "empty": return np.array([], dtype=np.int64)
    raise KeyError(ix)


def apply_gsel(op, x, g, ix):
    I = make_indexer(ix, x, g)
    if op == "gsel_kw": return x.isel(**{g: I})
    if op == "gsel_dict": return x.isel({g: I})
    if op == "gsel_indexers": return x.isel(indexers={g: I})
    if op == "gsel_getitem": return x[_at(x, g, I)]
    if op == "ds_gsel": return _ds(x).isel(**{g: I})["v"]
    if op == "grid_gsel":
        import xarray as xr

        if not hasattr(x, "uxgrid"):
            return x.isel({g: I})
        # Grid.isel itself: the data is what plain xarray selects, the grid what Grid.isel builds
        Ip = make_indexer(ix, to_plain(x), g)
        return hux.import_ux().UxDataArray(to_plain(x).isel({g: Ip}), uxgrid=x.uxgrid.isel(**{g: I}))
    raise KeyError(op)


def _ds(x):
    return x.to_dataset(name="v")


# companion variables of a mixed-location dataset (UxOps!CompShape); values are tracers: element index along the
# grid dim (+ 1000 * position in the leading dims)
COMP_SHAPE = {"cf": ("n_face",), "cn": ("n_node",), "ce": ("n_edge",), "c0": ("aux",), "c2": ("aux", "aux2", "n_node")}
AUX_LEN = {"aux": 4, "aux2": 2}
MIX_SELECT = {"ds_isel_grid_kw", "ds_isel_grid_step", "ds_isel_grid_slice", "ds_isel_grid_array", "ds_isel_grid_rev",
              "ds_head_grid", "ds_tail_grid", "ds_thin_grid"}
MIX_OPS = MIX_SELECT | {"ds_get_dual", "ds_remap_nn_face", "ds_copy_deep", "ds_mean_grid"}


def companion_values(c, cnt):
    shape = [cnt[k] if k in GRID_KINDS else AUX_LEN[k] for k in COMP_SHAPE[c]]
    last = np.arange(shape[-1], dtype=float)
    if len(shape) == 1:
        return last
    lead = np.arange(int(np.prod(shape[:-1])), dtype=float).reshape(shape[:-1])
    return lead[..., None] * 1000.0 + last


def mixed_ds(x, mix):
    ds = _ds(x)
    if mix and hasattr(x, "uxgrid"):
        ux = hux.import_ux()
        cnt = counts(x.uxgrid)
        for c in mix:
            ds[c] = ux.UxDataArray(companion_values(c, cnt), dims=COMP_SHAPE[c], uxgrid=x.uxgrid)
    return ds


def build_grid(name):
    ux = hux.import_ux()
    e = catalog.entries(name=name, rot=0, cut=0)[0]
    ll = [lattice.lonlat_deg(v) for v in e["nodes"]]
    _, FILL = hux.consts()
    return ux.Grid.from_topology(np.array([p[0] for p in ll], dtype=float), np.array([p[1] for p in ll], dtype=float),
                                 hux.pad_table(e["faces"]), fill_value=FILL)


def env():
    """Fresh base/destination grids (a new pair per start so that nothing leaks between programs)."""
    return {"base": build_grid("cuboctahedron"), "dest": build_grid("cube")}


def counts(g):
    out = {}
    for k in GRID_KINDS:
        try:
            out[k] = int(getattr(g, k))
        except Exception:  # noqa
            out[k] = -1
    return out


def start_array(base, lead, kind):
    ux = hux.import_ux()
    sizes = {"time": 3, "lev": 2}
    n = counts(base)[kind]
    shape = [sizes[d] for d in lead] + [n]
    data = (np.arange(1, int(np.prod(shape)) + 1, dtype=float).reshape(shape)) * 1.25
    coords = {"time": np.arange(3) * 10.0, "lev": 100.0 + np.arange(2)}
    return ux.UxDataArray(data, dims=list(lead) + [kind], coords={d: coords[d] for d in lead}, name="v", uxgrid=base)


def to_plain(x):
    import xarray as xr

    return xr.DataArray(np.array(x.values), dims=x.dims, coords={k: v.variable for k, v in x.coords.items()}, name=x.name, attrs=dict(x.attrs))


def grid_dim(x):
    for d in x.dims:
        if d in GRID_KINDS:
            return d
    return None


def _at(x, d, item):
    pos = list(x.dims).index(d)
    return tuple([slice(None)] * pos + [item])


def apply(op, d, x, dest=None, mix=(), full=False, ix="-"):
    """Apply the public operation `op` (dimension argument d) to x (UxDataArray or DataArray)."""
    import xarray as xr

    g = grid_dim(x)
    if op in GSEL_OPS:
        return apply_gsel(op, x, g, ix)
    if op.startswith("ds_"):
        return apply_ds(op, d, x, g, dest, mix=mix)
    # ---- elementwise
    if op == "add_scalar": return x + 1
    if op == "radd_scalar": return 1 + x
    if op == "sub_scalar": return x - 1
    if op == "mul_scalar": return x * 2
    if op == "div_scalar": return x / 2
    if op == "pow_scalar": return x ** 2
    if op == "mod_scalar": return x % 2
    if op == "mul_self": return x * x
    if op == "add_self": return x + x
    if op == "neg": return -x
    if op == "abs": return abs(x)
    if op == "np_sin": return np.sin(x)
    if op == "np_add": return np.add(x, 1)
    if op == "round": return x.round()
    if op == "where_mask": return x.where(x > 5)
    if op == "where_other": return x.where(x > 5, 0.0)
    if op == "xr_where": return xr.where(x > 5, x, 0)
    if op == "clip": return x.clip(min=2.0, max=50.0)
    if op == "fillna": return x.fillna(0.0)
    if op == "conj": return x.conj()
    if op == "compute": return x.compute()
    if op == "load": return x.load()
    if op == "pipe": return x.pipe(lambda a: a * 2)
    if op == "assign_attrs": return x.assign_attrs(units="K")
    if op == "copy_shallow": return x.copy(deep=False)
    if op == "gt_scalar": return x > 5
    if op == "eq_self": return x == x
    if op == "isnull": return x.isnull()
    if op == "notnull": return x.notnull()
    if op == "isin": return x.isin([1.25, 2.5, 5.0])
    if op == "astype": return x.astype("float32")
    if op == "rename": return x.rename("w")
    if op == "to_dataset_roundtrip": return x.to_dataset(name="w")["w"]
    if op == "cumsum_grid": return x.cumsum(g)
    # ---- elementwise with a dimension
    if op == "add_plain": return x + xr.DataArray(np.arange(x.sizes[d]) + 1.0, dims=[d])
    if op == "shift": return x.shift(**{d: 1})
    if op == "roll": return x.roll(**{d: 1}, roll_coords=False)
    if op == "cumsum": return x.cumsum(d)
    if op == "cumprod": return x.cumprod(d)
    if op == "rolling_mean": return x.rolling(**{d: 2}).mean()
    if op == "sortby": return x.sortby(d, ascending=False)
    if op == "assign_coords": return x.assign_coords(**{d: np.arange(x.sizes[d]) + 0.5})
    if op == "drop_vars": return x.drop_vars(d)
    # ---- permutations
    if op == "T": return x.T
    if op == "transpose_rev": return x.transpose(*reversed(x.dims))
    if op == "transpose_gridfirst": return x.transpose(g, ...)
    if op == "transpose_gridlast": return x.transpose(..., g)
    if op == "transpose_rotate": return x.transpose(*(list(x.dims[1:]) + [x.dims[0]]))
    # ---- a non-grid dimension removed
    if op == "isel_kw": return x.isel(**{d: 0})
    if op == "isel_dict": return x.isel({d: 0})
    if op == "isel_indexers": return x.isel(indexers={d: 0})
    if op == "sel_kw": return x.sel(**{d: x[d].values[0]})
    if op == "sel_dict": return x.sel({d: x[d].values[0]})
    if op == "getitem_int": return x[_at(x, d, 0)]
    if op == "getitem_dict": return x[{d: 0}]
    if op == "loc": return x.loc[_at(x, d, x[d].values[0])]
    if op in REDUCERS: return getattr(x, op)(d)
    if op == "quantile": return x.quantile(0.5, dim=d)
    if op == "reduce": return x.reduce(np.mean, dim=d)
    if op == "squeeze": return x.squeeze(d)
    # ---- a non-grid dimension resized
    if op == "isel_slice_kw": return x.isel(**{d: slice(0, 2)})
    if op == "isel_slice_dict": return x.isel({d: slice(0, 2)})
    if op == "getitem_slice": return x[_at(x, d, slice(0, 2))]
    if op == "head": return x.head(**{d: 2})
    if op == "thin": return x.thin(**{d: 2})
    if op == "diff": return x.diff(d)
    if op == "pad": return x.pad(**{d: (1, 1)})
    if op == "concat_self": return xr.concat([x, x], dim=d)
    if op == "coarsen": return x.coarsen(**{d: x.sizes[d]}).mean()
    if op == "reindex": return x.reindex(**{d: x[d].values[:2]})
    if op == "isel_list_kw": return x.isel(**{d: [0]})
    if op == "where_drop": return x.where(x[d] != x[d].values[0], drop=True)
    if op == "isel_step_kw": return x.isel(**{d: STEP})
    if op == "isel_step_dict": return x.isel({d: STEP})
    if op == "isel_step_indexers": return x.isel(indexers={d: STEP})
    if op == "getitem_step": return x[_at(x, d, STEP)]
    if op == "isel_rev_kw": return x.isel(**{d: REV})
    if op == "isel_rev_dict": return x.isel({d: REV})
    if op == "isel_rev_indexers": return x.isel(indexers={d: REV})
    if op == "getitem_rev": return x[_at(x, d, REV)]
    # ---- a dimension added
    if op == "expand_dims_run": return x.expand_dims("run")
    if op == "concat_new_run": return xr.concat([x, x], dim="run")
    if op == "broadcast_like_run": return x.broadcast_like(xr.DataArray(np.zeros(2), dims=["run"]))
    # ---- the grid dimension removed
    if op == "mean_grid": return x.mean(g)
    if op == "sum_grid": return x.sum(g)
    if op == "max_grid": return x.max(g)
    if op == "sum_all": return x.sum()
    if op == "getitem_grid_scalar": return x[_at(x, g, 0)]
    if op == "dot_self_grid": return x.dot(x, dim=g)
    # ---- xarray indexing / resizing on the grid dimension
    if op == "getitem_grid_slice": return x[_at(x, g, slice(0, 2))]
    if op == "isel_grid_dict": return x.isel({g: [0, 1]})
    if op == "isel_grid_indexers": return x.isel(indexers={g: [0, 1]})
    if op == "head_grid": return x.head(**{g: 2})
    if op == "isel_grid_step_dict": return x.isel({g: STEP})
    if op == "isel_grid_step_indexers": return x.isel(indexers={g: STEP})
    if op == "getitem_grid_step": return x[_at(x, g, STEP)]
    if op == "isel_grid_rev_dict": return x.isel({g: REV})
    if op == "isel_grid_rev_indexers": return x.isel(indexers={g: REV})
    if op == "getitem_grid_rev": return x[_at(x, g, REV)]
    if op == "getitem_grid_mask": return x[_at(x, g, _mask(x, g))]
    if op == "isel_grid_slice_kw": return x.isel(**{g: slice(0, 2)})
    if op == "isel_grid_step_kw": return x.isel(**{g: STEP})
    if op == "isel_grid_rev_kw": return x.isel(**{g: REV})
    if op == "isel_grid_array_kw": return x.isel(**{g: np.array([0, 1] if x.sizes[g] >= 3 else [0])})
    if op == "isel_grid_mask_kw": return x.isel(**{g: _mask(x, g)})
    if op == "diff_grid": return x.diff(g)
    if op == "pad_grid": return x.pad(**{g: (1, 1)})
    if op == "concat_self_grid": return xr.concat([x, x], dim=g)
    # ---- copies
    if op == "copy_default": return x.copy()
    if op == "copy_deep": return x.copy(deep=True)
    if op == "deepcopy": return _copy.deepcopy(x)
    # ---- uxarray's own operators
    if op == "integrate": return x.integrate()
    if op in TOPO: return getattr(x, TOPO[op][0])(TOPO[op][1])
    if op == "gradient": return x.gradient()
    if op == "difference": return x.difference("edge")
    if op in REMAP:
        how, to = REMAP[op]
        if how == "nn":
            return x.remap.nearest_neighbor(dest, remap_to=to)
        return x.remap.inverse_distance_weighted(dest, remap_to=to, k=max(1, min(3, x.sizes[g])))
    if op == "get_dual": return x.get_dual()
    if op == "isel_grid_kw": return x.isel(**{g: [0, 1] if x.sizes[g] >= 3 else [0]})
    if op == "subset_nn":
        return x.subset.nearest_neighbor((10.0, 20.0), k=2 if x.sizes[g] >= 3 else 1, element=ELEMENT[g])
    raise KeyError(op)


def apply_ds_full(op, d, x, dest=None, mix=()):
    """Dataset-level operation that touches a grid dimension, on the dataset {v: x} + companions(mix): the whole result.
    For selections d names the grid dimension selected along ("-": the array's own)."""
    g = grid_dim(x)
    ds = mixed_ds(x, mix)
    sk = g if d == "-" else d
    n = ds.sizes[sk] if sk is not None else 0
    two = [0, 1] if n >= 3 else [0]
    if op == "ds_isel_grid_kw": return ds.isel(**{sk: two})
    if op == "ds_isel_grid_step": return ds.isel(**{sk: STEP})
    if op == "ds_isel_grid_slice": return ds.isel(**{sk: slice(0, 2)})
    if op == "ds_isel_grid_array": return ds.isel({sk: np.array(two)})
    if op == "ds_isel_grid_rev": return ds.isel(indexers={sk: REV})
    if op == "ds_head_grid": return ds.head(**{sk: 2})
    if op == "ds_tail_grid": return ds.tail(**{sk: 2})
    if op == "ds_thin_grid": return ds.thin(**{sk: 3})
    if op == "ds_get_dual": return ds.get_dual()
    if op == "ds_remap_nn_face": return ds.remap.nearest_neighbor(dest, remap_to="face centers")
    if op == "ds_copy_deep": return ds.copy(deep=True)
    if op == "ds_mean_grid": return ds.mean(g)
    raise KeyError(op)


def observe_companions(op, out, pre, mix, reg, project_):
    """Project every companion variable of the result dataset `out` of a mixed-dataset operation on `pre`."""
    comps = []
    cnt0 = counts(pre.uxgrid)
    sel_cache = {}
    for c in mix:
        if c not in out.data_vars:
            continue
        v = out[c]
        rec = {"c": c, "src": [], "sel": [], "val": "na"}
        rec.update({k: w for k, w in project_(v, reg).items() if k in ("cls", "grid", "dims")})
        kinds = [k for k in v.dims if k in GRID_KINDS]
        if op in MIX_SELECT or op == "ds_copy_deep":
            orig = companion_values(c, cnt0)
            try:
                if kinds and v.dims[-1] == kinds[0] and rec["cls"] == "Ux" and rec["grid"] != 0:
                    k = kinds[0]
                    vals = np.asarray(v.values, dtype=float)
                    row = vals.reshape(-1, vals.shape[-1])[0]
                    rec["src"] = [int(t) % 1000 if t == t else -1 for t in row.tolist()]
                    if k not in sel_cache:
                        pk, canon = canonical(element_keys(pre.uxgrid, k))
                        sel_cache[k] = ([pk.get(key, -1) for key in element_keys(v.uxgrid, k)], canon)
                    rec["val"] = "eq" if _arr_eq(vals, np.take(orig, rec["src"], axis=-1)) else "diff"
                    rec["sel"], canon = sel_cache[k]
                    rec["src"] = [canon[i] if 0 <= i < len(canon) else i for i in rec["src"]]
                elif not kinds:
                    rec["val"] = "eq" if _arr_eq(np.asarray(v.values, dtype=float), orig) else "diff"
            except Exception:  # noqa
                rec["val"] = "diff"
        comps.append(rec)
    return comps


def apply_ds(op, d, x, g, dest, mix=()):
    """The operation applied to a dataset holding x as variable "v"; the variable taken out again."""
    import xarray as xr

    if op in MIX_OPS:
        return apply_ds_full(op, d, x, dest=dest, mix=mix)["v"]
    ds = _ds(x)
    if op == "ds_getitem": return ds["v"]
    if op == "ds_attr": return ds.v
    if op == "ds_data_vars": return ds.data_vars["v"]
    if op == "ds_assign": return ds.assign(w=ds["v"] * 2)["w"]
    if op == "ds_rename_var": return ds.rename({"v": "w"})["w"]
    if op == "ds_setitem":
        ds["w"] = ds["v"] + 1
        return ds["w"]
    if op == "ds_add_ds": return (ds + ds)["v"]
    if op == "ds_mul_scalar": return (ds * 2)["v"]
    if op == "ds_neg": return (-ds)["v"]
    if op == "ds_np_sin": return np.sin(ds)["v"]
    if op == "ds_where": return ds.where(ds["v"] > 5)["v"]
    if op == "ds_fillna": return ds.fillna(0.0)["v"]
    if op == "ds_astype": return ds.astype("float32")["v"]
    if op == "ds_map": return ds.map(lambda a: a * 2)["v"]
    if op == "ds_copy_shallow": return ds.copy(deep=False)["v"]
    if op == "ds_to_array": return ds.to_array().squeeze("variable", drop=True)
    if op == "ds_cumsum": return ds.cumsum(d)["v"]
    if op == "ds_isel_kw": return ds.isel(**{d: 0})["v"]
    if op == "ds_isel_dict": return ds.isel({d: 0})["v"]
    if op == "ds_sel": return ds.sel(**{d: x[d].values[0]})["v"]
    if op == "ds_mean": return ds.mean(d)["v"]
    if op == "ds_squeeze": return ds.squeeze(d)["v"]
    if op == "ds_isel_slice": return ds.isel(**{d: slice(0, 2)})["v"]
    if op == "ds_diff": return ds.diff(d)["v"]
    if op == "ds_concat": return xr.concat([ds, ds], dim=d)["v"]
    if op == "ds_head": return ds.head(**{d: 2})["v"]
    if op == "ds_expand_dims_run": return ds.expand_dims("run")["v"]
    if op == "ds_transpose_rev": return ds.transpose(*reversed(x.dims))["v"]
    raise KeyError(op)


def _arr_eq(a, b):
    a, b = np.asarray(a), np.asarray(b)
    if a.shape != b.shape or a.dtype != b.dtype:
        return False
    if a.dtype.kind == "O":
        return all((p is q) or (p == q) or (p != p and q != q) for p, q in zip(a.ravel().tolist(), b.ravel().tolist()))
    try:
        return bool(np.array_equal(a, b, equal_nan=True))
    except TypeError:
        return bool(np.array_equal(a, b))


def same_as_plain(r, rp):
    """Value oracle: dims, shape, dtype, values (NaN = NaN), name and coordinates equal plain xarray's."""
    import xarray as xr

    if not isinstance(r, xr.DataArray) or not isinstance(rp, xr.DataArray):
        return type(r) is type(rp)
    if tuple(r.dims) != tuple(rp.dims) or r.shape != rp.shape or r.dtype != rp.dtype or r.name != rp.name:
        return False
    if not _arr_eq(r.values, rp.values):
        return False
    if set(r.coords) != set(rp.coords):
        return False
    for k in rp.coords:
        ca, cb = r.coords[k], rp.coords[k]
        if tuple(ca.dims) != tuple(cb.dims):
            return False
        if not _arr_eq(ca.values, cb.values):
            return False
    return True


class Registry:
    """Handles of real Grid objects along one program: identity -> 1, 2, 3 ... in order of appearance."""

    def __init__(self, grids):
        self.grids = list(grids)
        self._cnt = {}

    def clone(self):
        r = Registry(self.grids)
        r._cnt = self._cnt
        return r

    def handle(self, g):
        if g is None:
            return 0
        for i, h in enumerate(self.grids):
            if h is g:
                return i + 1
        self.grids.append(g)
        return len(self.grids)

    def cnt(self, g):
        k = id(g)
        if k not in self._cnt:
            self._cnt[k] = (g, counts(g))
        return self._cnt[k][1]


def _np_vars(g):
    """The numpy arrays behind the variables of a grid's dataset (Variable.values does not copy numpy-backed data)."""
    out = {}
    for name, v in g._ds.variables.items():
        try:
            out[name] = np.asarray(v.values)
        except Exception:  # noqa
            pass
    return out


def shares_memory(g, h):
    """Does any variable of grid g's dataset share memory with any variable of grid h's dataset?"""
    a, b = _np_vars(g), _np_vars(h)
    return any(np.shares_memory(x, y) for x in a.values() for y in b.values() if x.size and y.size)


def edit_leaks(g, h):
    """Behavioural probe: edit one entry of each array of g in place; does the same-named array of h change?  (restored)"""
    a, b = _np_vars(g), _np_vars(h)
    leaked = False
    for name in a:
        if name not in b or not a[name].size or a[name].shape != b[name].shape or not a[name].flags.writeable:
            continue
        x, y = a[name].reshape(-1), b[name].reshape(-1)
        if not np.shares_memory(x, a[name]):  # reshape had to copy: skip
            continue
        old, seen = x[0].copy(), y[0].copy()
        x[0] = old + 1 if x.dtype.kind in "iuf" else old
        if not (y[0] == seen or (y[0] != y[0] and seen != seen)):
            leaked = True
        x[0] = old
    return leaked


def _node_keys(g):
    lon = np.round(np.asarray(g.node_lon.values, dtype=float), 9)
    lat = np.round(np.asarray(g.node_lat.values, dtype=float), 9)
    return [(float(a), float(b)) for a, b in zip(lon, lat)]


def element_keys(g, kind):
    """Geometric identity of every element of a grid: a node is its position, an edge/face the set of its corners."""
    _, FILL = hux.consts()
    nk = _node_keys(g)
    if kind == "n_node":
        return nk
    conn = g.face_node_connectivity.values if kind == "n_face" else g.edge_node_connectivity.values
    return [frozenset(nk[int(j)] for j in row if j != FILL and j >= 0) for row in np.asarray(conn)]


def canonical(keys):
    """A grid may hold the same element twice (after a repeated selection): elements are identified up to that.
    Returns ({key: first index with that key}, [canonical index of every element])."""
    first = {}
    for i, key in enumerate(keys):
        first.setdefault(key, i)
    return first, [first[key] for key in keys]


def selection_maps(op, pre, r, dest=None, d="-", mix=(), ix="-"):
    """For a selection on the grid dimension: (src, sel).
    src[i]: index in `pre` the data at position i came from - a tracer array (values = element index) on pre's grid is
            put through the same call;
    sel[i]: index in pre's grid of element i of the result's grid, identified by the positions of its corners."""
    ux = hux.import_ux()
    k = grid_dim(pre)
    n = pre.sizes[k]
    try:
        t = ux.UxDataArray(np.arange(n, dtype=float), dims=[k], uxgrid=pre.uxgrid, name="t")
        tr = apply(op, d, t, dest=dest, mix=mix, ix=ix)
        src = [int(v) if v == v else -1 for v in np.asarray(tr.values, dtype=float).ravel().tolist()]
    except Exception:  # noqa
        src = [-2]
    try:
        pk, canon = canonical(element_keys(pre.uxgrid, k))
        sel = [pk.get(key, -1) for key in element_keys(r.uxgrid, k)]
        raw = list(src)
        src = [canon[i] if 0 <= i < len(canon) else i for i in src]
    except Exception:  # noqa
        sel, canon, raw = [-3], None, list(src)
    return src, sel, canon, raw


def project(r, reg):
    """Project a result to (cls, grid handle, dims [k, n, size], name, g-metadata)."""
    import xarray as xr

    ux = hux.import_ux()
    if isinstance(r, ux.UxDataArray):
        cls = "Ux"
    elif type(r) is xr.DataArray:
        cls = "Plain"
    else:
        return {"cls": "Other", "grid": 0, "dims": [], "name": "other", "g": {"cnt": {k: -1 for k in GRID_KINDS}, "eq": [], "share": [], "mem": [], "leak": []}}
    grid = getattr(r, "uxgrid", None) if cls == "Ux" else None
    known = len(reg.grids)
    h = reg.handle(grid)
    dims = []
    for dname, size in zip(r.dims, r.shape):
        k = dname if dname in GRID_KINDS or dname in LEAD_KINDS or dname in AUX_LEN else "other"
        size = int(size)
        if k in GRID_KINDS:
            n = 0
            if grid is not None and reg.cnt(grid)[k] == size:
                n = h
            else:
                for i, og in enumerate(reg.grids):
                    if reg.cnt(og)[k] == size:
                        n = i + 1
                        break
        else:
            n = size
        dims.append({"k": k, "n": n, "size": size})
    name = {"v": "v", "w": "w", None: "none"}.get(r.name, "other")
    g = {"cnt": {k: -1 for k in GRID_KINDS}, "eq": [], "share": [], "mem": [], "leak": []}
    if grid is not None:
        g["cnt"] = dict(reg.cnt(grid))
        # equality / dataset sharing with the known grids is observed when a grid first appears (a copy is a new object)
        for i, og in enumerate(reg.grids if h > known else []):
            if og is grid:
                continue
            try:
                if bool(grid == og):
                    g["eq"].append(i + 1)
            except Exception:  # noqa
                pass
            if getattr(grid, "_ds", None) is getattr(og, "_ds", 0):
                g["share"].append(i + 1)
            if shares_memory(grid, og):
                g["mem"].append(i + 1)
            if edit_leaks(grid, og) or edit_leaks(og, grid):
                g["leak"].append(i + 1)
    return {"cls": cls, "grid": h, "dims": dims, "name": name, "g": g}


def obs_bookkeeping(r):
    """Descriptive fields (label state per dim, dtype class) used only to report model drift."""
    out = {}
    for d in r.dims:
        if d in GRID_KINDS:
            continue
        if d not in r.coords:
            out[d] = "none"
        else:
            v = np.asarray(r.coords[d].values)
            try:
                bad = np.isnan(v.astype(float)).any()
            except Exception:  # noqa
                bad = False
            out[d] = "uniq" if (len(set(v.tolist())) == len(v) and not bad) else "dup"
    return out, ("other" if r.dtype.kind in "bO" else "float")

"""Parser / printer for TLA+ values as TLC prints them (PrintT, -dump, trace files).

Python images:  integers -> int, strings -> str, TRUE/FALSE -> bool,
<<..>> -> tuple, {..} -> frozenset (or tuple of items if unhashable),
[a |-> v, ..] -> dict with str keys, (k :> v @@ ..) -> dict, model values -> MV(name),
a..b -> tuple(range).
"""

from __future__ import annotations


class MV(str):
    """A TLC model value / bare identifier."""

    def __repr__(self):
        return "MV(%s)" % str.__repr__(self)


class ParseError(ValueError):
    pass


def _hashable(v):
    if isinstance(v, dict):
        return tuple(sorted((_hashable(k), _hashable(x)) for k, x in v.items()))
    if isinstance(v, (list, tuple)):
        return tuple(_hashable(x) for x in v)
    if isinstance(v, (set, frozenset)):
        return frozenset(_hashable(x) for x in v)
    return v


class _P:
    def __init__(self, s):
        self.s = s
        self.i = 0
        self.n = len(s)

    def ws(self):
        s, n = self.s, self.n
        while self.i < n and s[self.i] in " \t\r\n":
            self.i += 1

    def peek(self, k=1):
        return self.s[self.i : self.i + k]

    def expect(self, tok):
        self.ws()
        if self.s.startswith(tok, self.i):
            self.i += len(tok)
        else:
            raise ParseError(
                "expected %r at %d: %r" % (tok, self.i, self.s[self.i : self.i + 40])
            )

    def value(self):
        self.ws()
        v = self.atom()
        # interval a..b
        self.ws()
        if self.peek(2) == ".." and isinstance(v, int):
            self.i += 2
            hi = self.atom()
            return tuple(range(v, hi + 1))
        return v

    def atom(self):
        self.ws()
        s = self.s
        if self.i >= self.n:
            raise ParseError("unexpected end")
        c = s[self.i]
        if c == '"':
            return self.string()
        if c == "<" and self.peek(2) == "<<":
            self.i += 2
            items = self.seq(">>")
            return tuple(items)
        if c == "{":
            self.i += 1
            items = self.seq("}")
            try:
                return frozenset(items)
            except TypeError:
                return frozenset(_hashable(x) for x in items)
        if c == "[":
            self.i += 1
            return self.record()
        if c == "(":
            self.i += 1
            return self.function()
        if c == "-" or c.isdigit():
            j = self.i + 1
            while j < self.n and s[j].isdigit():
                j += 1
            v = int(s[self.i : j])
            self.i = j
            return v
        if c.isalpha() or c == "_":
            j = self.i + 1
            while j < self.n and (s[j].isalnum() or s[j] == "_"):
                j += 1
            w = s[self.i : j]
            self.i = j
            if w == "TRUE":
                return True
            if w == "FALSE":
                return False
            return MV(w)
        raise ParseError("unexpected %r at %d" % (c, self.i))

    def string(self):
        s = self.s
        assert s[self.i] == '"'
        j = self.i + 1
        out = []
        while j < self.n:
            c = s[j]
            if c == "\\":
                nx = s[j + 1]
                out.append({"n": "\n", "t": "\t", '"': '"', "\\": "\\"}.get(nx, nx))
                j += 2
                continue
            if c == '"':
                self.i = j + 1
                return "".join(out)
            out.append(c)
            j += 1
        raise ParseError("unterminated string")

    def seq(self, close):
        items = []
        self.ws()
        if self.s.startswith(close, self.i):
            self.i += len(close)
            return items
        while True:
            items.append(self.value())
            self.ws()
            if self.s.startswith(close, self.i):
                self.i += len(close)
                return items
            self.expect(",")

    def record(self):
        d = {}
        self.ws()
        if self.peek() == "]":
            self.i += 1
            return d
        while True:
            self.ws()
            j = self.i
            while j < self.n and (self.s[j].isalnum() or self.s[j] == "_"):
                j += 1
            key = self.s[self.i : j]
            self.i = j
            self.expect("|->")
            d[key] = self.value()
            self.ws()
            if self.peek() == "]":
                self.i += 1
                return d
            self.expect(",")

    def function(self):
        d = {}
        while True:
            k = self.value()
            self.expect(":>")
            v = self.value()
            d[_hashable(k)] = v
            self.ws()
            if self.peek() == ")":
                self.i += 1
                return d
            self.expect("@@")


def parse(text: str):
    p = _P(text)
    v = p.value()
    p.ws()
    if p.i != p.n:
        raise ParseError("trailing input at %d: %r" % (p.i, text[p.i : p.i + 40]))
    return v


def parse_prefix(text: str, start: int = 0):
    """Parse one value starting at `start`; returns (value, end index)."""
    p = _P(text)
    p.i = start
    v = p.value()
    return v, p.i


def to_tla(v) -> str:
    """Print a Python value as a TLA+ expression."""
    if isinstance(v, bool):
        return "TRUE" if v else "FALSE"
    if isinstance(v, MV):
        return str(v)
    if isinstance(v, int):
        return str(v) if v >= 0 else "(%d)" % v
    if isinstance(v, str):
        return '"' + v.replace("\\", "\\\\").replace('"', '\\"') + '"'
    if isinstance(v, (list, tuple)):
        return "<<" + ", ".join(to_tla(x) for x in v) + ">>"
    if isinstance(v, (set, frozenset)):
        return "{" + ", ".join(sorted(to_tla(x) for x in v)) + "}"
    if isinstance(v, dict):
        if not v:
            return "<<>>"
        if all(isinstance(k, str) and k.isidentifier() for k in v):
            return "[" + ", ".join("%s |-> %s" % (k, to_tla(x)) for k, x in v.items()) + "]"
        return "(" + " @@ ".join("%s :> %s" % (to_tla(k), to_tla(x)) for k, x in v.items()) + ")"
    raise TypeError("cannot print %r as TLA+" % (v,))


def parse_dump(text: str):
    """Parse the output of `tlc -dump file`: a list of {var: value} dicts."""
    states = []
    cur = None
    buf = []

    def flush():
        nonlocal buf, cur
        if cur is not None and buf:
            body = "\n".join(buf).strip()
            if body:
                states.append(_parse_state_body(body))
        buf = []

    for line in text.splitlines():
        if line.startswith("State ") and line.rstrip().endswith(":"):
            flush()
            cur = True
            continue
        if cur:
            buf.append(line)
    flush()
    return states


def _parse_state_body(body: str):
    # body is "/\ x = v\n/\ y = w" or "x = v" for single-variable specs
    d = {}
    p = _P(body)
    while True:
        p.ws()
        if p.i >= p.n:
            break
        if p.s.startswith("/\\", p.i):
            p.i += 2
        p.ws()
        j = p.i
        while j < p.n and (p.s[j].isalnum() or p.s[j] == "_"):
            j += 1
        name = p.s[p.i : j]
        p.i = j
        p.expect("=")
        d[name] = p.value()
    return d

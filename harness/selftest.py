"""./check selftest [--only GLOB] [--seeded]: sensitivity measurement.  Applies every seeded change under
/verif/mutants (and /verif/seeded with --seeded) to a scratch worktree of /repo and runs the owning
check against it; a change that is not caught is reported.  See tools/mutants.py."""

import os
import subprocess
import sys


def main(argv):
    tool = os.path.join(os.path.dirname(os.path.dirname(os.path.abspath(__file__))), "tools", "mutants.py")
    return subprocess.call([sys.executable, tool] + list(argv))

"""C05 replay drivers: materialise faces emitted by AreaCases.tla as real Grids, call
Grid.compute_face_areas / face_areas / face_jacobian / calculate_total_face_area, and project the
results to what JudgeArea.tla / AreaCache.tla judge.

Nothing here decides a verdict.  Floats appear in exactly two places: evaluation of the exact
descriptors (harness/lattice.py: atan2, sqrt, fsum) and `quant`, which turns a deviation into the
quantised relative error the judge compares with the property's tolerances.
"""

from __future__ import annotations

import math
import re

from harness import lattice as L
from harness import tlaval
from harness import ux as hux

GAUSS = [("gaussian", k) for k in range(1, 11)]
TRI = [("triangular", k) for k in (1, 4, 8, 10, 12)]
RULES = GAUSS + TRI
DEFAULT = ("triangular", 4)
HIGHEST = [("gaussian", 10), ("triangular", 12)]
CAP = 2**30
FOUR_PI = 4.0 * math.pi

# rule names of AreaCache.tla
RULE_NAMES = {"t4": ("triangular", 4), "t1": ("triangular", 1), "t8": ("triangular", 8), "t12": ("triangular", 12),
              "g1": ("gaussian", 1), "g3": ("gaussian", 3), "g7": ("gaussian", 7), "g10": ("gaussian", 10)}


def prints(out):
    """PrintT values of a TLC run (TLC pretty-prints long values as '<< "tag",' over several lines)."""
    res = []
    for m in re.finditer(r'^<< ?"', out, re.M):
        try:
            v, _ = tlaval.parse_prefix(out, m.start())
        except tlaval.ParseError:
            continue
        res.append(v)
    return res


def quant(dev, ref):
    """Quantised relative error <<ceil(x*1e13), ceil(x*1e6)>>, capped; NaN / inf -> cap."""
    try:
        x = abs(dev) / abs(ref)
    except ZeroDivisionError:
        return [CAP, CAP]
    if not (x == x) or x == float("inf"):
        return [CAP, CAP]
    return [int(min(math.ceil(x * 1e13), CAP)), int(min(math.ceil(x * 1e6), CAP))]


def qmax(qs):
    qs = list(qs)
    if not qs:
        return [0, 0]
    return [max(q[0] for q in qs), max(q[1] for q in qs)]


def _key(v):
    g = math.gcd(math.gcd(abs(v[0]), abs(v[1])), abs(v[2]))
    return (v[0] // g, v[1] // g, v[2] // g)


def soup_grid(faces):
    """A Grid whose faces are the given corner-direction sequences (faces may overlap: areas only
    need node coordinates and the face-node table).  The same direction is always the same node."""
    import numpy as np

    ux = hux.import_ux()
    _, FILL = hux.consts()
    ids = {}
    lon, lat, conn = [], [], []
    for f in faces:
        row = []
        for v in f:
            k = _key(v)
            if k not in ids:
                ids[k] = len(lon)
                lo, la = L.lonlat_deg(k)
                lon.append(lo)
                lat.append(la)
            row.append(ids[k])
        conn.append(row)
    return ux.Grid.from_topology(np.array(lon, dtype=float), np.array(lat, dtype=float), hux.pad_table(conn), fill_value=FILL)


def mesh_grid(nodes, faces):
    import numpy as np

    ux = hux.import_ux()
    _, FILL = hux.consts()
    ll = [L.lonlat_deg(_key(v)) for v in nodes]
    return ux.Grid.from_topology(
        np.array([p[0] for p in ll], dtype=float), np.array([p[1] for p in ll], dtype=float), hux.pad_table(faces), fill_value=FILL
    )


def all_areas(g, latlons=(True,), rules=RULES):
    """{(rule, order, latlon): areas} for one grid; an exception propagates (the property promises a value)."""
    import numpy as np

    out = {}
    for rule, order in rules:
        for ll in latlons:
            a, _ = g.compute_face_areas(rule, order, ll)
            out[(rule, order, ll)] = np.asarray(a)
    return out


def warm_up():
    """Compile / load the jitted kernels once in the parent so that forked workers find them cached."""
    g = soup_grid([[(1, 0, 0), (1, 1, 0), (1, 1, 1)], [(1, 0, 0), (1, 1, 0), (1, 1, 1), (1, 0, 1)]])
    all_areas(g, (True, False), [DEFAULT, ("gaussian", 2)])
    _ = g.face_areas


# ----------------------------------------------------------------------------- bulk faces
def bulk_chunk(item):
    """item: {"faces": [{"id", "dirs", "ex", "bucket"}]} -> list of "face" records (or one error)."""
    faces = item["faces"]
    try:
        g = soup_grid([f["dirs"] for f in faces])
        A = all_areas(g, (True, False))
    except Exception as e:  # noqa
        return [{"error": "%s: %s" % (type(e).__name__, str(e)[:300]), "ids": [f["id"] for f in faces[:3]], "n": len(faces)}]
    out = []
    for k, f in enumerate(faces):
        ex = L.excess(f["ex"])
        if not ex > 0:
            return [{"machinery": "exact excess %r of %s is not positive" % (ex, f["id"])}]
        a_t = {r: float(A[(r[0], r[1], True)][k]) for r in RULES}
        a_c = {r: float(A[(r[0], r[1], False)][k]) for r in RULES}
        rec = {
            "kind": "face",
            "id": f["id"],
            "n": len(f["dirs"]),
            "bucket": f["bucket"],
            "neg": any((not v >= 0.0) for v in a_t.values()),
            "cneg": any((not v >= 0.0) for v in a_c.values()),
            # for every rule the Cartesian-input value is not an area of anything: NaN, numerically zero,
            # or larger than the whole sphere
            "czero": all((not (1e-6 * ex < abs(v) <= FOUR_PI)) for v in a_c.values()),
            "d": quant(a_t[DEFAULT] - ex, ex),
            "g": [quant(a_t[r] - ex, ex) for r in GAUSS],
            "t": [quant(a_t[r] - ex, ex) for r in TRI],
            "cx": qmax(quant(a_c[r] - a_t[r], ex) for r in RULES),
            "exact": ex,
            "area": a_t[DEFAULT],
            "area_cart": a_c[DEFAULT],
        }
        out.append(rec)
    return out


# ----------------------------------------------------------------------------- orbits
def orbit_chunk(item):
    """item: {"orbits": [{"id", "dirs", "ex", "bucket", "shifts", "rots", "subs"}]} -> "orbit" records."""
    orbs = item["orbits"]
    faces = []
    index = []  # per orbit: positions
    for o in orbs:
        pos = {"base": len(faces)}
        faces.append(o["dirs"])
        pos["shifts"] = list(range(len(faces), len(faces) + len(o["shifts"])))
        faces += o["shifts"]
        pos["rots"] = list(range(len(faces), len(faces) + len(o["rots"])))
        faces += o["rots"]
        pos["subs"] = []
        for s in o["subs"]:
            pos["subs"].append(list(range(len(faces), len(faces) + len(s["pieces"]))))
            faces += s["pieces"]
        index.append(pos)
    try:
        g = soup_grid(faces)
        A = all_areas(g, (True,))
    except Exception as e:  # noqa
        return [{"error": "%s: %s" % (type(e).__name__, str(e)[:300]), "ids": [o["id"] for o in orbs[:3]], "n": len(orbs)}]
    out = []
    for o, pos in zip(orbs, index):
        ex = L.excess(o["ex"])
        b = pos["base"]
        used = [b] + pos["shifts"] + pos["rots"] + [p for s in pos["subs"] for p in s]
        neg = any((not float(A[(r[0], r[1], True)][p]) >= 0.0) for r in RULES for p in used)

        def a(r, p):
            return float(A[(r[0], r[1], True)][p])

        subs = []
        for s, ps in zip(o["subs"], pos["subs"]):
            exs = [L.excess(d) for d in s["ex"]]
            if abs(math.fsum(exs) - ex) > 1e-11 * max(1.0, 1.0 / ex) * ex + 1e-13:
                return [{"machinery": "pieces of %s (%s %s %s): exact excesses %r do not add up to %r" % (o["id"], s["kind"], s["a"], s["b"], exs, ex)}]
            subs.append(
                {
                    "kind": s["kind"],
                    "a": s["a"],
                    "b": s["b"],
                    "add_d": quant(a(DEFAULT, b) - math.fsum(a(DEFAULT, p) for p in ps), ex),
                    "add_hi": qmax(quant(a(r, b) - math.fsum(a(r, p) for p in ps), ex) for r in HIGHEST),
                    "piece_d": qmax(quant(a(DEFAULT, p) - e, e) for p, e in zip(ps, exs)),
                }
            )
        out.append(
            {
                "kind": "orbit",
                "id": o["id"],
                "n": len(o["dirs"]),
                "bucket": o["bucket"],
                "neg": neg,
                "shift_d": qmax(quant(a(DEFAULT, p) - a(DEFAULT, b), ex) for p in pos["shifts"]),
                "shift_hi": qmax(quant(a(r, p) - a(r, b), ex) for p in pos["shifts"] for r in HIGHEST),
                "rot": qmax(quant(a(r, p) - a(r, b), ex) for p in pos["rots"] for r in RULES),
                "subs": subs,
            }
        )
    return out


# ----------------------------------------------------------------------------- closed meshes
def _renumber(nodes, faces, nperm, fperm):
    nn = [None] * len(nodes)
    for i, v in enumerate(nodes):
        nn[nperm[i]] = v
    ff = [None] * len(faces)
    for j, f in enumerate(faces):
        ff[fperm[j]] = [nperm[v] for v in f]
    return nn, ff


def mesh_case(m):
    """m: {"id", "nodes", "faces", "ex", "buckets", "worst", "node_perms", "face_perms"} -> "mesh" record."""
    import numpy as np

    try:
        exs = [L.excess(d) for d in m["ex"]]
        if abs(math.fsum(exs) - FOUR_PI) > 1e-11:
            return {"machinery": "exact excesses of closed mesh %s sum to %r, not 4 pi" % (m["id"], math.fsum(exs))}
        g = mesh_grid(m["nodes"], m["faces"])
        A = all_areas(g, (True,))
        tot = {r: math.fsum(float(x) for x in A[(r[0], r[1], True)]) for r in RULES}
        fn = qmax(quant(float(g.calculate_total_face_area(r[0], r[1])) - tot[r], FOUR_PI) for r in RULES)
        cached = np.asarray(g.face_areas.values)
        fresh = mesh_grid(m["nodes"], m["faces"]).compute_face_areas()[0]
        neg = any((not float(x) >= 0.0) for r in RULES for x in A[(r[0], r[1], True)])
        ren = []
        pairs = list(zip(m["node_perms"], m["face_perms"]))
        for nperm, fperm in pairs:
            nn, ff = _renumber(m["nodes"], m["faces"], nperm, fperm)
            B = all_areas(mesh_grid(nn, ff), (True,))
            for r in RULES:
                a0 = A[(r[0], r[1], True)]
                b0 = B[(r[0], r[1], True)]
                ren.append(qmax(quant(float(b0[fperm[j]]) - float(a0[j]), exs[j]) for j in range(len(exs))))
        return {
            "kind": "mesh",
            "id": m["id"],
            "bucket": m["worst"],
            "n_face": len(m["faces"]),
            "neg": neg,
            "tot_d": quant(tot[DEFAULT] - FOUR_PI, FOUR_PI),
            "tot_hi": qmax(quant(tot[r] - FOUR_PI, FOUR_PI) for r in HIGHEST),
            "tot_g": [quant(tot[r] - FOUR_PI, FOUR_PI) for r in GAUSS],
            "tot_t": [quant(tot[r] - FOUR_PI, FOUR_PI) for r in TRI],
            "tot_fn": fn,
            "renum": qmax(ren),
            "n_renum": len(pairs),
            "cached": bool(cached.shape == fresh.shape and np.array_equal(cached, fresh)),
            "total_default": tot[DEFAULT],
        }
    except Exception as e:  # noqa
        return {"error": "%s: %s" % (type(e).__name__, str(e)[:300]), "ids": [m["id"]], "n": 1}


# ----------------------------------------------------------------------------- cache histories
_REF = {}


def _refs(mesh_id, nodes, faces, rules):
    """Fresh-grid values per tag (rule name, latlon): one new Grid per value."""
    import numpy as np

    key = (mesh_id, tuple(rules))
    if key not in _REF:
        ref = {}
        for rn in rules:
            rule, order = RULE_NAMES[rn]
            for ll in (True, False):
                a, j = mesh_grid(nodes, faces).compute_face_areas(rule, order, ll)
                ref[(rn, ll)] = (np.asarray(a), np.asarray(j))
        _REF[key] = ref
    return _REF[key]


def _same(x, y):
    import numpy as np

    x = np.asarray(x)
    return x.shape == y.shape and x.dtype == y.dtype and bool(np.array_equal(x, y, equal_nan=True))


def history_case(item):
    """item: {"id", "mesh": {"id", "nodes", "faces"}, "rules": [names], "acts": [[name, args...]]}
    -> trace record for AreaCache.tla: per step what was observed, projected to matching tags."""
    import numpy as np

    m = item["mesh"]
    rules = item["rules"]
    ref = _refs(m["id"], m["nodes"], m["faces"], rules)
    g = mesh_grid(m["nodes"], m["faces"])
    steps = []
    held = None      # the arrays the most recent compute_face_areas returned to the caller
    for act in item["acts"]:
        s = {"act": list(act), "raised": False, "kind": "none", "tags": [], "tags2": []}
        try:
            if act[0] == "compute":
                rule, order = RULE_NAMES[act[1]]
                a, j = g.compute_face_areas(rule, order, act[2])
                held = (a, j)
                s["kind"] = "pair"
                s["tags"] = [[t[0], t[1]] for t, v in ref.items() if _same(a, v[0])]
                s["tags2"] = [[t[0], t[1]] for t, v in ref.items() if _same(j, v[1])]
            elif act[0] == "total":
                rule, order = RULE_NAMES[act[1]]
                x = g.calculate_total_face_area(rule, order)
                s["kind"] = "total"
                s["tags"] = [[t[0], t[1]] for t, v in ref.items() if float(x) == float(np.sum(v[0]))]
            elif act[0] == "face_areas":
                a = g.face_areas
                s["kind"] = "areas"
                ok_dims = tuple(a.dims) == ("n_face",)
                s["tags"] = [[t[0], t[1]] for t, v in ref.items() if ok_dims and _same(a.values, v[0])]
            elif act[0] == "face_jacobian":
                j = g.face_jacobian
                s["kind"] = "jac"
                if j is not None:
                    s["tags"] = [[t[0], t[1]] for t, v in ref.items() if _same(getattr(j, "values", j), v[1])]
            elif act[0] == "chunk":
                g.chunk()
                s["kind"] = "done"
            elif act[0] == "edit":
                # the caller changes ITS results in place (they are plain numpy arrays it was handed)
                for arr in held or ():
                    if isinstance(arr, np.ndarray) and arr.flags.writeable:
                        if act[1] == "scale":
                            arr *= 6371.0**2
                        elif act[1] == "zero":
                            arr[...] = 0.0
                        else:
                            arr[...] = arr[::-1].copy()
                s["kind"] = "done"
            else:
                s["kind"] = "unknown-act"
        except Exception as e:  # noqa
            s["raised"] = True
            s["error"] = "%s: %s" % (type(e).__name__, str(e)[:160])
        steps.append(s)
    return {"id": item["id"], "steps": steps}


# ----------------------------------------------------------------------------- tiny faces (exact shrink map)
def shrink_x(M, v):
    """AreaCases!ShrinkX: v -> (M-1)(v.c)c + (c.c)v for c = (1, 0, 0), in unbounded integers."""
    return (M * v[0], v[1], v[2])


def apply_rot(r, v):
    """SphereZ!ApplyRot: r = (perm, signs), 1-based perm."""
    p, s = r
    return tuple(s[i] * v[p[i] - 1] for i in range(3))


def _det(a, b, c):
    return (
        (a[1] * b[2] - a[2] * b[1]) * c[0]
        + (a[2] * b[0] - a[0] * b[2]) * c[1]
        + (a[0] * b[1] - a[1] * b[0]) * c[2]
    )


def _dot(a, b):
    return a[0] * b[0] + a[1] * b[1] + a[2] * b[2]


def fan_descr(F):
    """AreaCases!FanDescr in unbounded integers (compared with TLC's own values at M = 1, 2, 5)."""
    a = F[0]
    return [
        [_det(a, F[k + 1], F[k + 2]), _dot(a, a), _dot(F[k + 1], F[k + 1]), _dot(F[k + 2], F[k + 2]), _dot(a, F[k + 1]), _dot(a, F[k + 2]), _dot(F[k + 1], F[k + 2])]
        for k in range(len(F) - 2)
    ]


def _isqrt_f(n):
    """float sqrt of a (possibly huge) non-negative integer, correctly scaled."""
    if n < (1 << 1000):
        return math.sqrt(n)
    sh = (n.bit_length() - 900) // 2 * 2
    return math.sqrt(n >> sh) * 2.0 ** (sh // 2)


def fan_excess(descr):
    """Sum over the fan triangles of 2 atan2(det, |a||b||c| + (a.b)|c| + (a.c)|b| + (b.c)|a|)."""
    tot = []
    for det, n2a, n2b, n2c, ab, ac, bc in descr:
        la, lb, lc = _isqrt_f(n2a), _isqrt_f(n2b), _isqrt_f(n2c)
        den = la * lb * lc + ab * lc + ac * lb + bc * la
        tot.append(2.0 * math.atan2(float(det), den))
    return math.fsum(tot)


def _face_records(prefix, faces, exacts, buckets, A, extra=None):
    out = []
    for k, f in enumerate(faces):
        ex = exacts[k]
        a_t = {r: float(A[(r[0], r[1], True)][k]) for r in RULES}
        a_c = {r: float(A[(r[0], r[1], False)][k]) for r in RULES}
        rec = {
            "kind": "face",
            "id": prefix + f["id"],
            "n": len(f["dirs"]),
            "bucket": buckets[k],
            "neg": any((not v >= 0.0) for v in a_t.values()),
            "cneg": any((not v >= 0.0) for v in a_c.values()),
            "czero": all((not (1e-6 * ex < abs(v) <= FOUR_PI)) for v in a_c.values()),
            "d": quant(a_t[DEFAULT] - ex, ex),
            "g": [quant(a_t[r] - ex, ex) for r in GAUSS],
            "t": [quant(a_t[r] - ex, ex) for r in TRI],
            "cx": qmax(quant(a_c[r] - a_t[r], ex) for r in RULES),
            "exact": ex,
            "area": a_t[DEFAULT],
            "area_cart": a_c[DEFAULT],
        }
        if extra:
            rec.update(extra[k])
        out.append(rec)
    return out


def tiny_chunk(item):
    """item: {"faces": [{"id", "dirs", "ex", "fan": {M: descr}}], "rots": RotSeq, "Ms": [big M], "targets": [axis]}
    -> "face" records (bucket "le10": relative accuracy classes apply to small faces too)."""
    rots = [(tuple(r[0]), tuple(r[1])) for r in item["rots"]]
    pick = []
    for t in item["targets"]:
        cands = [r for r in rots if apply_rot(r, (1, 0, 0)) == tuple(t)]
        if not cands:
            return [{"machinery": "no rotation carries +x to %r" % (t,)}]
        pick.append((t, cands[0]))
    soup, meta = [], []
    for f in item["faces"]:
        F = [tuple(v) for v in f["dirs"]]
        for M, d in f["fan"].items():
            if fan_descr([shrink_x(int(M), v) for v in F]) != [list(x) for x in d]:
                return [{"machinery": "integer evaluation of FanDescr differs from TLC's for %s at M=%s" % (f["id"], M)}]
        e1 = fan_excess(fan_descr(F))
        e0 = L.excess(f["ex"])
        if abs(e1 - e0) > 1e-12 * max(e0, 1e-3):
            return [{"machinery": "the two exact formulas disagree on %s: %r vs %r" % (f["id"], e1, e0)}]
        for M in item["Ms"]:
            G = [shrink_x(M, v) for v in F]
            ex = fan_excess(fan_descr(G))
            if not ex > 0:
                return [{"machinery": "tiny face %s M=%d has excess %r" % (f["id"], M, ex)}]
            for t, r in pick:
                soup.append([apply_rot(r, v) for v in G])
                meta.append(({"id": "%s|M%d|to%s" % (f["id"], M, "".join(map(str, t))), "dirs": soup[-1]}, ex, {"M": M, "to": list(t), "dirs": [list(v) for v in soup[-1]]}))
    try:
        g = soup_grid(soup)
        A = all_areas(g, (True, False))
    except Exception as e:  # noqa
        return [{"error": "%s: %s" % (type(e).__name__, str(e)[:300]), "ids": [m[0]["id"] for m in meta[:3]], "n": len(meta)}]
    return _face_records("tiny:", [m[0] for m in meta], [m[1] for m in meta], ["le10"] * len(meta), A, [m[2] for m in meta])


# ----------------------------------------------------------------------------- coordinate provenance
def prov_chunk(item):
    """Grids whose nodes come from xyz only (from_face_vertices(latlon=False)) and from both lon/lat and
    xyz (from_topology with node_x/y/z): the same faces, the same clauses."""
    import numpy as np

    ux = hux.import_ux()
    _, FILL = hux.consts()
    faces = item["faces"]
    exacts = [L.excess(f["ex"]) for f in faces]
    out = []
    try:
        # both: lon/lat and xyz supplied
        ids, lon, lat, xyz, conn = {}, [], [], [], []
        for f in faces:
            row = []
            for v in f["dirs"]:
                k = _key(v)
                if k not in ids:
                    ids[k] = len(lon)
                    lo, la = L.lonlat_deg(k)
                    lon.append(lo)
                    lat.append(la)
                    xyz.append(L.unit(k))
                row.append(ids[k])
            conn.append(row)
        xyz = np.array(xyz, dtype=float)
        g = ux.Grid.from_topology(
            np.array(lon), np.array(lat), hux.pad_table(conn), fill_value=FILL, node_x=xyz[:, 0].copy(), node_y=xyz[:, 1].copy(), node_z=xyz[:, 2].copy()
        )
        out += _face_records("both:", faces, exacts, [f["bucket"] for f in faces], all_areas(g, (True, False)))
        # xyz only, one grid per face size (from_face_vertices takes a rectangular array)
        by_n = {}
        for k, f in enumerate(faces):
            by_n.setdefault(len(f["dirs"]), []).append(k)
        for n, ks in sorted(by_n.items()):
            verts = np.array([[L.unit(_key(v)) for v in faces[k]["dirs"]] for k in ks], dtype=float)
            gx = ux.Grid.from_face_vertices(verts, latlon=False)
            if int(gx.n_face) != len(ks):
                return [{"machinery": "from_face_vertices built %d faces from %d" % (int(gx.n_face), len(ks))}]
            out += _face_records("xyz:", [faces[k] for k in ks], [exacts[k] for k in ks], [faces[k]["bucket"] for k in ks], all_areas(gx, (True, False)))
    except Exception as e:  # noqa
        return [{"error": "%s: %s" % (type(e).__name__, str(e)[:300]), "ids": [f["id"] for f in faces[:3]], "n": len(faces)}]
    return out


# ----------------------------------------------------------------------------- single-precision sources
F32_RULES = [("triangular", 4), ("gaussian", 3), ("triangular", 12)]


def f32_chunk(item):
    """Grids whose node coordinates are STORED in float32 (lon/lat via from_topology and via an in-memory
    UGRID dataset; lon/lat + xyz; xyz only via from_face_vertices) against the float64-built twin holding
    exactly the same (float32-representable) values.  One record per (face, source): did any call raise,
    and the largest deviation from the twin over both inputs and a few rules."""
    import numpy as np
    import xarray as xr

    ux = hux.import_ux()
    _, FILL = hux.consts()
    faces = item["faces"]
    ids, lon, lat, xyz, conn = {}, [], [], [], []
    for f in faces:
        row = []
        for v in f["dirs"]:
            k = _key(v)
            if k not in ids:
                ids[k] = len(lon)
                lo, la = L.lonlat_deg(k)
                lon.append(lo)
                lat.append(la)
                xyz.append(L.unit(k))
            row.append(ids[k])
        conn.append(row)
    table = hux.pad_table(conn)
    lon32, lat32 = np.array(lon, dtype=np.float32), np.array(lat, dtype=np.float32)
    xyz32 = np.array(xyz, dtype=np.float32)
    exacts = [L.excess(f["ex"]) for f in faces]

    def ugrid_ds(lo, la):
        ds = xr.Dataset()
        ds["mesh"] = xr.DataArray(0, attrs={"cf_role": "mesh_topology", "topology_dimension": 2, "node_coordinates": "node_lon node_lat", "face_node_connectivity": "face_node_connectivity"})
        ds["node_lon"] = xr.DataArray(lo, dims=["n_node"], attrs={"standard_name": "longitude", "units": "degrees_east"})
        ds["node_lat"] = xr.DataArray(la, dims=["n_node"], attrs={"standard_name": "latitude", "units": "degrees_north"})
        ds["face_node_connectivity"] = xr.DataArray(table.copy(), dims=["n_face", "n_max_face_nodes"], attrs={"cf_role": "face_node_connectivity", "start_index": 0, "_FillValue": FILL})
        return ux.Grid.from_dataset(ds)

    def build(source, dt):
        lo, la, xz = lon32.astype(dt), lat32.astype(dt), xyz32.astype(dt)
        if source == "lonlat":
            return ux.Grid.from_topology(lo, la, table.copy(), fill_value=FILL)
        if source == "ugrid":
            return ugrid_ds(lo, la)
        if source == "both":
            return ux.Grid.from_topology(lo, la, table.copy(), fill_value=FILL, node_x=xz[:, 0].copy(), node_y=xz[:, 1].copy(), node_z=xz[:, 2].copy())
        raise KeyError(source)

    out = []
    plans = [(s, None) for s in ("lonlat", "ugrid", "both")]
    by_n = {}
    for k, f in enumerate(faces):
        by_n.setdefault(len(f["dirs"]), []).append(k)
    plans += [("xyz", n) for n in sorted(by_n)]
    for source, n in plans:
        ks = list(range(len(faces))) if n is None else by_n[n]
        try:
            if n is None:
                g64, g32 = build(source, np.float64), build(source, np.float32)
                stored = str(g32._ds["node_lon"].dtype)
            else:
                verts32 = np.array([[xyz32[ids[_key(v)]] for v in faces[k]["dirs"]] for k in ks], dtype=np.float32)
                g64 = ux.Grid.from_face_vertices(verts32.astype(np.float64), latlon=False)
                g32 = ux.Grid.from_face_vertices(verts32, latlon=False)
                stored = str(g32._ds["node_x"].dtype)
            if stored != "float32":
                return [{"machinery": "source %s does not store float32 coordinates (%s)" % (source, stored)}]
        except Exception as e:  # noqa
            return [{"machinery": "could not build the %s grids: %s: %s" % (source, type(e).__name__, str(e)[:200])}]
        # stored coordinates are used by latlon=True on lon/lat sources and by latlon=False on xyz sources;
        # the other input uses coordinates the grid DERIVES (in the source's precision)
        stored_inputs = {"lonlat": (True,), "ugrid": (True,), "both": (True, False), "xyz": (False,)}[source]
        dev = [[0, 0] for _ in ks]
        dev_der = [[0, 0] for _ in ks]
        neg = [False] * len(ks)
        raised = None
        for rule, order in F32_RULES:
            for ll in (True, False):
                try:
                    a64 = np.asarray(g64.compute_face_areas(rule, order, ll)[0])
                except Exception as e:  # noqa
                    return [{"machinery": "float64 twin of %s raised: %s: %s" % (source, type(e).__name__, str(e)[:200])}]
                try:
                    a32 = np.asarray(g32.compute_face_areas(rule, order, ll)[0])
                except Exception as e:  # noqa
                    raised = "%s(%s,%d,latlon=%s): %s: %s" % (source, rule, order, ll, type(e).__name__, str(e)[:120])
                    continue
                for j, k in enumerate(ks):
                    qq = quant(float(a32[j]) - float(a64[j]), exacts[k])
                    if ll in stored_inputs:
                        dev[j] = qmax([dev[j], qq])
                    else:
                        dev_der[j] = qmax([dev_der[j], qq])
                    neg[j] = neg[j] or (not float(a32[j]) >= 0.0)
        for j, k in enumerate(ks):
            rec = {"kind": "f32", "id": "%s:%s" % (source, faces[k]["id"]), "n": len(faces[k]["dirs"]), "bucket": faces[k]["bucket"], "source": source, "raised": raised is not None, "neg": neg[j], "q": dev[j], "qd": dev_der[j]}
            if raised:
                rec["raise_detail"] = raised
            out.append(rec)
    return out


# ----------------------------------------------------------------------------- derived grids (AreaDerived.tla)
D_PANEL = [("triangular", 4, True), ("triangular", 4, False), ("gaussian", 3, True)]
_DREF = {}


def _panel(g):
    import numpy as np

    out = {}
    for rule, order, ll in D_PANEL:
        out[(rule, order, ll)] = np.asarray(g.compute_face_areas(rule, order, ll)[0], dtype=float)
    return out


def _dref(mesh):
    """Fresh-source references of a mesh: panel areas, total, edge table, the dual's panel (closed meshes)."""
    import numpy as np

    if mesh["id"] not in _DREF:
        ref = {"panel": _panel(mesh_grid(mesh["nodes"], mesh["faces"]))}
        ref["total"] = float(mesh_grid(mesh["nodes"], mesh["faces"]).calculate_total_face_area())
        if not mesh["soup"]:
            ge = mesh_grid(mesh["nodes"], mesh["faces"])
            ref["edges"] = [tuple(sorted(int(v) for v in row)) for row in np.asarray(ge.edge_node_connectivity.values)]
        if mesh["info"]["closed"]:
            d = mesh_grid(mesh["nodes"], mesh["faces"]).get_dual()
            ref["dual"] = _panel(d)
        _DREF[mesh["id"]] = ref
    return _DREF[mesh["id"]]


def derived_case(item):
    """item: {"id", "mesh": {"id", "nodes", "faces", "soup", "info"}, "acts": [[act, arg]]} -> records of kinds
    "derived" / "dual" (one per derivation) and "partition" (when the plan is a family of face selections)."""
    import numpy as np

    mesh = item["mesh"]
    info = mesh["info"]
    try:
        ref = _dref(mesh)
        exacts = [L.excess(d) for d in info["ex"]]
        g = mesh_grid(mesh["nodes"], mesh["faces"])
    except Exception as e:  # noqa
        return [{"machinery": "references of mesh %s: %s: %s" % (mesh["id"], type(e).__name__, str(e)[:200])}]
    out, totals, members = [], [], []
    for step, (act, arg) in enumerate(item["acts"]):
        if act == "read":
            try:
                if arg == "npf":
                    _ = g.n_nodes_per_face.values
                elif arg == "face_areas":
                    _ = g.face_areas.values
                elif arg == "compute_g3":
                    g.compute_face_areas("gaussian", 3)
                elif arg == "face_jacobian":
                    _ = g.face_jacobian
                elif arg == "total":
                    g.calculate_total_face_area()
                else:
                    return [{"machinery": "unknown read %r" % arg}]
            except Exception as e:  # noqa
                return [{"machinery": "read %s on the source of %s raised: %s: %s" % (arg, item["id"], type(e).__name__, str(e)[:160])}]
            continue
        rid = "%s@%d:%s" % (item["id"], step + 1, arg)
        if arg == "dual":
            rec = {"kind": "dual", "id": rid, "mesh": mesh["id"], "sel": arg, "raised": False, "neg": False, "closed": bool(info["closed"]), "q_inv": [CAP, CAP], "tot": [CAP, CAP]}
            try:
                d = g.get_dual()
                P = _panel(d)
                fa = np.asarray(d.face_areas.values, dtype=float)
                qs = []
                for k, a in P.items():
                    r0 = ref["dual"][k]
                    qs.append([CAP, CAP] if a.shape != r0.shape else qmax(quant(float(x) - float(y), float(y)) for x, y in zip(a, r0)))
                r0 = ref["dual"][D_PANEL[0]]
                qs.append([CAP, CAP] if fa.shape != r0.shape else qmax(quant(float(x) - float(y), float(y)) for x, y in zip(fa, r0)))
                rec["q_inv"] = qmax(qs)
                rec["tot"] = quant(float(d.calculate_total_face_area()) - FOUR_PI, FOUR_PI)
                rec["neg"] = any((not float(x) >= 0.0) for a in P.values() for x in a)
            except Exception as e:  # noqa
                rec["raised"] = True
                rec["raise_detail"] = "%s: %s" % (type(e).__name__, str(e)[:160])
            out.append(rec)
            continue
        exp = list(info["sels"][arg])
        rec = {
            "kind": "derived", "id": rid, "mesh": mesh["id"], "sel": arg, "raised": False, "neg": False, "n_face": -1,
            "exp": exp, "exp_sizes": [info["sizes"][k] for k in exp], "npf": [], "q_inv": [CAP, CAP], "qe": [],
        }
        try:
            if arg == "nodes_low":
                d = g.isel(n_node=list(info["nodesel"][0]))
            elif arg == "nodes_third":
                d = g.isel(n_node=list(info["nodesel"][1]))
            elif arg == "sides_first":
                idx = [ref["edges"].index(tuple(sorted(s))) for s in info["sides"]]
                d = g.isel(n_edge=sorted(idx))
            else:
                d = g.isel(n_face=exp)
            rec["n_face"] = int(d.n_face)
            rec["npf"] = [int(x) for x in np.asarray(d.n_nodes_per_face.values)]
            P = _panel(d)
            fa = np.asarray(d.face_areas.values, dtype=float)
            tot = float(d.calculate_total_face_area())
            if rec["n_face"] == len(exp):
                qs = []
                for k, a in P.items():
                    qs.append(qmax(quant(float(a[j]) - float(ref["panel"][k][exp[j]]), exacts[exp[j]]) for j in range(len(exp))))
                r0 = ref["panel"][D_PANEL[0]]
                qs.append(qmax(quant(float(fa[j]) - float(r0[exp[j]]), exacts[exp[j]]) for j in range(len(exp))))
                s0 = math.fsum(float(r0[k]) for k in exp)
                qs.append(quant(tot - s0, s0))
                rec["q_inv"] = qmax(qs)
                a0 = P[D_PANEL[0]]
                rec["qe"] = [[info["buckets"][exp[j]], quant(float(a0[j]) - exacts[exp[j]], exacts[exp[j]])] for j in range(len(exp))]
            rec["neg"] = any((not float(x) >= 0.0) for a in P.values() for x in a)
            totals.append(tot)
            members.append(arg)
        except Exception as e:  # noqa
            rec["raised"] = True
            rec["raise_detail"] = "%s: %s" % (type(e).__name__, str(e)[:160])
        out.append(rec)
    plan = [a[1] for a in item["acts"] if a[0] == "derive"]
    if plan and all(p in ("evens", "odds", "low", "high", "m0", "m1", "m2", "all") for p in plan) and len(totals) == len(plan):
        out.append({"kind": "partition", "id": item["id"] + "|partition", "mesh": mesh["id"], "members": plan, "part_q": quant(math.fsum(totals) - ref["total"], ref["total"])})
    return out

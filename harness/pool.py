"""Process pool for replaying cases into the implementation.

`import uxarray` costs ~9 s, so the parent imports it once and the workers are
forked from it (no parallel numba code has run in the parent at that point).
"""

from __future__ import annotations

import multiprocessing as mp
import os

_FUNC = None


def _run_chunk(chunk):
    return [_FUNC(x) for x in chunk]


def pmap(func, items, nproc=None, chunk=None):
    """Ordered map over items with forked workers. func must be a module-level function."""
    global _FUNC
    items = list(items)
    if nproc is None:
        nproc = int(os.environ.get("VERIF_NPROC", "0")) or min(16, os.cpu_count() or 4)
    if nproc <= 1 or len(items) < 8:
        return [func(x) for x in items]
    from . import ux as _ux

    _ux.import_ux()
    _FUNC = func
    if chunk is None:
        chunk = max(1, min(200, len(items) // (nproc * 4) or 1))
    chunks = [items[i : i + chunk] for i in range(0, len(items), chunk)]
    ctx = mp.get_context("fork")
    with ctx.Pool(nproc) as pool:
        out = pool.map(_run_chunk, chunks)
    return [y for c in out for y in c]
